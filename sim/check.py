#!/usr/bin/env python3
"""check.py <ID> --tier quick|thorough     run one property check
   check.py --replay <file>                replay a recorded violation"""
import argparse
import os
import sys

sys.path.insert(0, os.path.dirname(os.path.abspath(__file__)))
from simlib import common, engine  # noqa: E402


def main():
    ap = argparse.ArgumentParser()
    ap.add_argument('prop', nargs='?')
    ap.add_argument('--tier', default=os.environ.get('VERIF_TIER', 'quick'))
    ap.add_argument('--replay')
    ap.add_argument('--flex')
    ap.add_argument('--only', help='comma-separated scenario indices')
    a = ap.parse_args()
    if a.replay:
        import json
        with open(a.replay) as fh:
            pid = json.load(fh).get('property', '')
        rmod = __import__('props.' + pid.lower(), fromlist=['x'])
        if hasattr(rmod, 'replay'):
            return rmod.replay(a.replay)
        return engine.replay(a.replay, a.flex)
    if not a.prop:
        ap.error('property id required')
    mod = __import__('props.' + a.prop.lower(), fromlist=['x'])
    tier = a.tier if a.tier in ('quick', 'thorough') else 'quick'
    only = [int(x) for x in a.only.split(',')] if a.only else None
    if hasattr(mod, 'run'):
        return mod.run(tier, common.seed_from_env())
    return engine.run_check(mod, tier, common.seed_from_env(), only)


if __name__ == '__main__':
    sys.exit(main())

/* sim.h - interface between the simulator driver (sim_driver.c) and the
 * per-scanner adapter (sim_scn.h, included in section 3 of every generated
 * .l file).  Everything the scanner can observe from its environment goes
 * through the functions declared here: input, allocation, fatal errors,
 * yywrap decisions, the ops executed inside actions, and the scheduler. */
#ifndef SIM_H
#define SIM_H
#ifndef _GNU_SOURCE
#define _GNU_SOURCE 1
#endif
#include <stdio.h>
#include <stdlib.h>
#include <string.h>
#include <errno.h>
#include <setjmp.h>
#include <stddef.h>

#ifdef __cplusplus
extern "C" {
#endif

/* ---- op codes (top level and in-action share one numbering) ---- */
#define SIM_OPS(X) \
	X(END) X(LESS) X(UNPUT) X(INPUT) X(MORE) X(REJECT) \
	X(BEGIN) X(PUSH_STATE) X(POP_STATE) X(TOP_STATE) X(GET_STATE) \
	X(RETURN) X(TERMINATE) \
	X(CREATE_BUF) X(SWITCH) X(PUSH_BUF) X(PUSHNEW) X(SWITCHNEW) X(POP_BUF) \
	X(FLUSH) X(DELETE) X(SCAN_BYTES) X(SCAN_STRING) X(SCAN_BUFFER) \
	X(RESTART) X(SET_YYIN) X(NEWFILE) \
	X(SETBOL) X(SET_INTERACTIVE) X(GET_LINENO) X(SET_LINENO) \
	X(INIT) X(LEX) X(DESTROY) X(TABLES_LOAD) X(TABLES_DESTROY) \
	X(LESS_OUT) X(STOP) X(NOP)
enum sim_opcode {
#define X(n) SOP_##n,
	SIM_OPS(X)
#undef X
	SOP__MAX
};

struct sim_inst;

/* A resolved op as handed to the scanner-side interpreter. */
typedef struct sim_xop {
	int code;
	long a, b;                 /* resolved numeric arguments */
	const unsigned char *data; /* byte-string argument */
	int len;
	void *p;                   /* resolved buffer pointer */
	FILE *f;                   /* resolved source stream */
	int h;                     /* resolved buffer handle / source id */
} sim_xop;

/* ---- adapter registration ---- */
typedef struct sim_scanner_vt {
	const char *name;
	int reentrant;            /* instances are independent objects */
	int nconds;               /* number of start conditions */
	int has_lineno, has_stack, has_reject, has_yymore;
	int bol_needed;
	int text_is_array;
	int default_rule;         /* number given to the default rule in logs */
	int has_tables;           /* built with --tables-file */
	void (*exec_top)(struct sim_inst *I, const sim_xop *op);
	int no_mem_buffers;       /* the flavour has no yy_scan_bytes/string/buffer (C++) */
} sim_scanner_vt;
void sim_register(const sim_scanner_vt *vt);

/* ---- per-instance state visible to the adapter ---- */
#define SIM_MAXBUF 96
typedef struct sim_bufent {
	void *b;         /* yybuffer (NULL when dead) */
	int live;
	int src;         /* source id it reads from, -1 for in-memory */
	int onstack;     /* 1 while it is in the scanner's buffer stack */
	void *usermem;   /* memory owned by the caller (yy_scan_buffer) */
	int exhausted;   /* in-memory buffer that was scanned to its end */
	int memlen;      /* bytes given to yy_scan_bytes/yy_scan_string, -1 otherwise */
} sim_bufent;

typedef struct sim_inst {
	int id;
	const sim_scanner_vt *vt;
	void *scanner;           /* yyscan_t for reentrant flavours, object for C++ */
	int dead;                /* fatal error taken */
	int inited;              /* INIT done (reentrant) */
	int lexed;               /* yylex called at least once since init/destroy */
	jmp_buf jb;              /* target of the fatal-error hook */
	int jb_valid;
	sim_bufent bufs[SIM_MAXBUF];
	int nbufs;
	int stack[SIM_MAXBUF];   /* handles, bottom first; top is current */
	int depth;
	/* action bookkeeping */
	long act_ord;            /* ordinal of the action being executed, -1 outside */
	int in_action, is_eof;
	int cur_rule, cur_len, more_prefix, prev_more, prev_len;
	int did_textop, did_less, did_bufop, did_more, n_ops;
	int rejected;            /* the previous action ended in REJECT */
	int at_eof;              /* the last yylex call returned 0 */
	int wrap_stop_in_op;     /* yywrap answered 1 while the current op ran */
	int input_eof;           /* yyinput() reported end of input in this action */
	int provided_input;      /* EOF action gave the scanner something to read */
	long lex_calls;
	int cur_top;             /* index of the top-level op being executed */
	int allocs_in_top;       /* allocator calls made during that op */
	int tables_loaded;
	int yyin_set;            /* the caller gave the scanner an input stream */
	int yyin_src;            /* source id behind that stream */
	int extra_set;           /* created with yylex_init_extra(this instance) */
	int n_setyyin;           /* top-level SET_YYIN ops resolved (C++: every other one is switch_streams) */
	void *priv;
} sim_inst;

/* sink for the default rule's echo where it cannot be hooked (c99) */
extern FILE *sim_devnull;

/* the instance running on this thread */
extern __thread sim_inst *sim_cur;

/* ---- input ---- */
int sim_read_user(FILE *f, char *buf, size_t max);
FILE *sim_src_file(int src);
int sim_src_of_file(FILE *f);

/* ---- allocation ---- */
/* the scanner-supplied context of an allocator call: must be the running instance's own */
void sim_check_extra(void *extra, int have_scanner);
void *sim_alloc(size_t n);
void *sim_realloc(void *p, size_t n);
void sim_free(void *p);

/* ---- fatal errors ---- */
void sim_fatal(const char *msg) __attribute__((noreturn));

/* ---- actions ---- */
void sim_enter(int rule, int is_eof, const char *text, int leng, int start,
	       int lineno, int atbol, void *curbuf);
int sim_next_op(sim_xop *op);
void sim_leave(void);
void sim_res_int(const char *what, long v);
void sim_res_text(const char *what, const char *text, int leng);
void sim_res_state(int start, int lineno, int atbol);
/* yywrap */
int sim_wrap_next(sim_xop *op);
void sim_wrap_done(int ret, int start);
/* buffers */
void sim_buf_created(void *b, int src, void *usermem, int switched);
void sim_buf_memlen(int len);
/* C++ switch_streams(): the current buffer was deleted and replaced by a new one on source src */
void sim_buf_replaced(void *b, int src);
/* %option read (-Cr): the scanner's read(2) and fileno() calls come here */
long sim_sys_read(int fd, void *buf, size_t n);
int sim_fileno(FILE *f);
void sim_sync_current(void *b, FILE *in);
void sim_log_lex(int ret, int start, int lineno);
/* scheduler */
void sim_yield(void);

#ifdef __cplusplus
}
#endif
#endif

/* sim_driver.c - deterministic simulator driver for flex-generated scanners.
 *
 * A *plan* (explicit text, produced by the Python side from VERIF_SEED) names
 * everything the scanner's environment does: what each read returns, which
 * allocation fails, what fresh memory contains, which API calls are made at
 * top level and inside actions, what yywrap answers, and which instance runs
 * next.  This file is a pure interpreter of plans: it contains no source of
 * nondeterminism of its own.  Every observable is written to the event log
 * with a global sequence number.
 *
 * usage: sim -p planfile            run one plan, log to stdout
 *        sim -b batchfile           many plans ("=== id" separators), one
 *                                   forked child per plan
 */
#include "sim.h"
#include <pthread.h>
#include <unistd.h>
#include <sys/wait.h>
#include <sys/types.h>
#include <signal.h>
#include <stdarg.h>
#include <stdint.h>

/* ------------------------------------------------------------------ */
/* sanitizer configuration: classify sanitizer hits by exit code 77     */
#if defined(__has_feature)
#if __has_feature(address_sanitizer)
#define SIM_ASAN 1
#endif
#endif
#if defined(__SANITIZE_ADDRESS__)
#define SIM_ASAN 1
#endif
#ifdef SIM_ASAN
__attribute__((used)) const char *__asan_default_options(void)
{
	return "exitcode=77:detect_leaks=0:abort_on_error=0:allocator_may_return_null=1:detect_stack_use_after_return=0";
}
__attribute__((used)) const char *__ubsan_default_options(void)
{
	return "halt_on_error=1:exitcode=77:print_stacktrace=0";
}
#endif

/* ------------------------------------------------------------------ */
static const char *opnames[] = {
#define X(n) #n,
	SIM_OPS(X)
#undef X
};

typedef struct plan_op {
	int code;
	long a, b;
	unsigned char *data;
	int len;
	long ord;  /* for act ops: action ordinal */
} plan_op;
typedef struct oplist { plan_op *v; int n, cap; } oplist;

enum { SK_USER, SK_STDIO };
enum { SE_EOF = -1, SE_EINTR = -2, SE_EIO = -3 };
typedef struct source {
	int id, inst, kind;
	unsigned char *data;
	int len, pos;
	int *sched;
	int nsched, spos;
	int vbuf;
	FILE *f;
	int used;
	long reads;
} source;

typedef struct afault { int top, nth; } afault;

/* simulated tables files (World T) */
typedef struct tfile {
	unsigned char *data;
	long len, pos;
	int chunk;       /* bytes per read call, 0 = as asked */
	long eio;        /* read error once the position reaches this offset, -1 = never */
	long reads;
} tfile;
#define MAXTFILE 16
static tfile tfiles[MAXTFILE];
static int ntfiles;

typedef struct instx {
	oplist top, acts, wraps;
	int act_pos, wrap_pos;
	afault *faults;
	int nfaults;
	pthread_t th;
	int finished;
	long alloc_serial;
	long live_cnt, live_bytes;
	char scn[64];
} instx;

#define MAXINST 16
#define MAXSRC 64
static sim_inst insts[MAXINST];
static instx instxs[MAXINST];
static int ninst;
static source srcs[MAXSRC];
static int nsrc;
static int *sched_list;
static int nsched_list, sched_pos;
static int free_run;
static unsigned long junk_seed = 1;
static int junk_pat;
static long max_events = 200000, max_lex = 100000;
static int realloc_moves = 1;
static __thread int resolving_wrap; /* resolve() is called for a yywrap op */
static int allow_mask; /* bit0: %array yyless after yymore; bit1: buffer switch in yywrap with yymore pending; bit2: yyinput() again after it reported end of input; bit3: return to an in-memory buffer that was scanned to its end; bit4: yywrap sets yyin while a yy_scan_bytes/string buffer is current */

static const sim_scanner_vt *scanners[32];
static int nscanners;

__thread sim_inst *sim_cur;
FILE *sim_devnull;

static FILE *logf;
static long seqno;
static pthread_mutex_t big;
#define FR_LOCK() do { if (free_run) pthread_mutex_lock(&big); } while (0)
#define FR_UNLOCK() do { if (free_run) pthread_mutex_unlock(&big); } while (0)
static pthread_cond_t cv = PTHREAD_COND_INITIALIZER;
static int baton = -1;

#define IX(I) (&instxs[(I)->id])

static void die(const char *fmt, ...)
{
	va_list ap;
	va_start(ap, fmt);
	fprintf(stderr, "sim: ");
	vfprintf(stderr, fmt, ap);
	fprintf(stderr, "\n");
	va_end(ap);
	if (logf)
		fflush(logf);
	_exit(3);
}

static void finish_all(const char *why);

static void ev(const char *fmt, ...)
{
	va_list ap;
	int over;
	if (free_run)
		pthread_mutex_lock(&big);
	fprintf(logf, "%ld %d ", seqno++, sim_cur ? sim_cur->id : -1);
	va_start(ap, fmt);
	vfprintf(logf, fmt, ap);
	va_end(ap);
	fputc('\n', logf);
	over = seqno > max_events;
	if (free_run)
		pthread_mutex_unlock(&big);
	if (over)
		finish_all("event-cap");
}

static uint64_t fnv(const unsigned char *p, long n)
{
	uint64_t h = 1469598103934665603ULL;
	long i;
	for (i = 0; i < n; i++) {
		h ^= p[i];
		h *= 1099511628211ULL;
	}
	return h;
}

/* hex of a byte string; long strings are abbreviated as prefix + hash */
static const char *hexs(const unsigned char *p, long n)
{
	static __thread char buf[1200];
	static const char d[] = "0123456789abcdef";
	long i, m = n > 512 ? 32 : n;
	char *q = buf;
	if (n == 0) {
		strcpy(buf, "-");
		return buf;
	}
	for (i = 0; i < m; i++) {
		*q++ = d[p[i] >> 4];
		*q++ = d[p[i] & 15];
	}
	*q = 0;
	if (n > 512)
		sprintf(q, "~%016llx", (unsigned long long) fnv(p, n));
	return buf;
}

/* ------------------------------------------------------------------ */
/* scanner registry                                                     */
void sim_register(const sim_scanner_vt *vt)
{
	if (nscanners < 32)
		scanners[nscanners++] = vt;
}
static const sim_scanner_vt *find_scanner(const char *name)
{
	int i;
	for (i = 0; i < nscanners; i++)
		if (!strcmp(scanners[i]->name, name))
			return scanners[i];
	if (nscanners == 1 && !strcmp(name, "*"))
		return scanners[0];
	return NULL;
}

/* ------------------------------------------------------------------ */
/* allocation ledger                                                    */
typedef struct lent {
	void *p;
	size_t n;
	int inst;
	long serial;
	int live;
} lent;
static lent *ledger;
static long nledger, capledger;

static lent *led_find(void *p)
{
	long i;
	for (i = nledger - 1; i >= 0; i--)
		if (ledger[i].p == p && ledger[i].live)
			return &ledger[i];
	return NULL;
}
static lent *led_find_dead(void *p)
{
	long i;
	for (i = nledger - 1; i >= 0; i--)
		if (ledger[i].p == p)
			return &ledger[i];
	return NULL;
}

static void junk_fill(unsigned char *p, size_t n, int inst, long serial, size_t from)
{
	size_t i;
	uint64_t x = junk_seed * 0x9E3779B97F4A7C15ULL ^ ((uint64_t) (inst + 1) << 40) ^ (uint64_t) serial * 0xD1B54A32D192ED03ULL;
	for (i = 0; i < n; i++) {
		unsigned char c;
		x ^= x << 13; x ^= x >> 7; x ^= x << 17;
		switch (junk_pat) {
		case 1: c = 0x00; break;
		case 2: c = 0xff; break;
		case 3: c = 0xa5; break;
		case 4: c = '\n'; break;
		default: c = (unsigned char) (x >> 24); break;
		}
		if (i >= from)
			p[i] = c;
	}
}

static int alloc_should_fail(sim_inst *I)
{
	instx *X = IX(I);
	int i;
	I->allocs_in_top++;
	for (i = 0; i < X->nfaults; i++)
		if (X->faults[i].top == I->cur_top && X->faults[i].nth == I->allocs_in_top)
			return 1;
	return 0;
}

static void *led_new(sim_inst *I, size_t n, long *serial)
{
	instx *X = IX(I);
	void *p = malloc(n ? n : 1);
	if (!p)
		die("host malloc failed");
	if (free_run)
		pthread_mutex_lock(&big);
	if (nledger == capledger) {
		capledger = capledger ? capledger * 2 : 256;
		ledger = (lent *) realloc(ledger, capledger * sizeof(lent));
	}
	*serial = X->alloc_serial++;
	ledger[nledger].p = p;
	ledger[nledger].n = n;
	ledger[nledger].inst = I->id;
	ledger[nledger].serial = *serial;
	ledger[nledger].live = 1;
	nledger++;
	X->live_cnt++;
	X->live_bytes += (long) n;
	if (free_run)
		pthread_mutex_unlock(&big);
	return p;
}

static void *sim_alloc_u(size_t n)
{
	sim_inst *I = sim_cur;
	long serial;
	void *p;
	if (!I)
		die("allocation outside any instance");
	sim_yield();
	if (alloc_should_fail(I)) {
		ev("A alloc n=%zu FAIL", n);
		return NULL;
	}
	p = led_new(I, n, &serial);
	junk_fill((unsigned char *) p, n, I->id, serial, 0);
	ev("A alloc n=%zu id=%d.%ld", n, I->id, serial);
	return p;
}

static void led_release(sim_inst *I, lent *e, const char *how)
{
	instx *X = &instxs[e->inst];
	(void) I; (void) how;
	e->live = 0;
	X->live_cnt--;
	X->live_bytes -= (long) e->n;
}

static void *sim_realloc_u(void *old, size_t n)
{
	sim_inst *I = sim_cur;
	long serial;
	lent *e;
	void *p;
	size_t keep;
	if (!I)
		die("allocation outside any instance");
	if (!old)
		return sim_alloc_u(n);
	sim_yield();
	e = led_find(old);
	if (!e) {
		lent *d = led_find_dead(old);
		ev("X bad-realloc %s", d ? "freed-pointer" : "foreign-pointer");
		finish_all("ledger");
	}
	if (e->inst != I->id)
		ev("X cross-instance realloc owner=%d", e->inst);
	if (alloc_should_fail(I)) {
		ev("A realloc n=%zu old=%d.%ld FAIL", n, e->inst, e->serial);
		return NULL;
	}
	keep = e->n < n ? e->n : n;
	{
		int oi = e->inst;
		long os = e->serial;
		p = led_new(I, n, &serial);
		e = led_find(old); /* ledger may have moved */
		memcpy(p, old, keep);
		junk_fill((unsigned char *) p, n, I->id, serial, keep);
		led_release(I, e, "realloc");
		free(old);
		ev("A realloc n=%zu old=%d.%ld id=%d.%ld", n, oi, os, I->id, serial);
	}
	return p;
}

static void sim_free_u(void *p)
{
	sim_inst *I = sim_cur;
	lent *e;
	if (!I)
		die("free outside any instance");
	if (!p) {
		ev("A free null");
		return;
	}
	e = led_find(p);
	if (!e) {
		lent *d = led_find_dead(p);
		ev("X bad-free %s", d ? "double-free" : "foreign-pointer");
		finish_all("ledger");
	}
	if (e->inst != I->id)
		ev("X cross-instance free owner=%d", e->inst);
	ev("A free id=%d.%ld", e->inst, e->serial);
	led_release(I, e, "free");
	free(p);
}

void sim_check_extra(void *extra, int have_scanner)
{
	sim_inst *I = sim_cur;
	if (!I || !have_scanner)
		return;
	if (I->extra_set ? extra != (void *) I : extra != NULL)
		ev("X foreign-extra: allocator call of instance %d carries the yyextra of %s", I->id,
		   extra == NULL ? "nobody" : "another instance");
}

void *sim_alloc(size_t n)
{
	void *p;
	FR_LOCK();
	p = sim_alloc_u(n);
	FR_UNLOCK();
	return p;
}
void *sim_realloc(void *old, size_t n)
{
	void *p;
	FR_LOCK();
	p = sim_realloc_u(old, n);
	FR_UNLOCK();
	return p;
}
void sim_free(void *p)
{
	FR_LOCK();
	sim_free_u(p);
	FR_UNLOCK();
}

/* ------------------------------------------------------------------ */
/* sources and reads                                                    */
static long do_read(source *s, char *buf, size_t max, int allow_err)
{
	int e;
	long n;
	sim_yield();
	s->reads++;
	e = s->nsched ? s->sched[s->spos++ % s->nsched] : 1 << 30;
	if (e == SE_EINTR || e == SE_EIO) {
		if (allow_err) {
			ev("R src=%d max=%zu ret=-1 %s pos=%d", s->id, max, e == SE_EINTR ? "EINTR" : "EIO", s->pos);
			errno = e == SE_EINTR ? EINTR : EIO;
			return -1;
		}
		e = 1;
	}
	if (e == SE_EOF) {
		ev("R src=%d max=%zu ret=0 EOFIND pos=%d", s->id, max, s->pos);
		return 0;
	}
	n = s->len - s->pos;
	if (n > e)
		n = e;
	if ((size_t) n > max)
		n = (long) max;
	if (max == 0)
		n = 0;
	memcpy(buf, s->data + s->pos, (size_t) n);
	s->pos += (int) n;
	ev("R src=%d max=%zu ret=%ld %s pos=%d", s->id, max, n, n == 0 ? "END" : "-", s->pos);
	return n;
}

int sim_src_of_file(FILE *f)
{
	int i;
	for (i = 0; i < nsrc; i++)
		if (srcs[i].f == f)
			return i;
	return -1;
}
FILE *sim_src_file(int id)
{
	if (id < 0 || id >= nsrc)
		die("bad source id %d", id);
	return srcs[id].f;
}

int sim_read_user(FILE *f, char *buf, size_t max)
{
	int id = sim_src_of_file(f);
	if (id < 0) {
		ev("X read-from-unknown-stream");
		return 0;
	}
	return (int) do_read(&srcs[id], buf, max, 0);
}

extern int __llvm_profile_write_file(void) __attribute__((weak));
#define SIM_FD_BASE 1000
int sim_fileno(FILE *f)
{
	int id = sim_src_of_file(f);
	if (id >= 0)
		return SIM_FD_BASE + id;
	return f ? (fileno)(f) : -1;
}
long sim_sys_read(int fd, void *buf, size_t n)
{
	if (fd >= SIM_FD_BASE && fd < SIM_FD_BASE + nsrc)
		return do_read(&srcs[fd - SIM_FD_BASE], (char *) buf, n, 1);
	ev("X read-from-unknown-descriptor fd=%d", fd);
	errno = EBADF;
	return -1;
}

static ssize_t cookie_read(void *c, char *buf, size_t size)
{
	source *s = (source *) c;
	return (ssize_t) do_read(s, buf, size, 1);
}
static int cookie_close(void *c)
{
	(void) c;
	return 0;
}

static ssize_t tf_read(void *c, char *buf, size_t size)
{
	tfile *t = (tfile *) c;
	long n = t->len - t->pos;
	t->reads++;
	if (t->eio >= 0 && t->pos >= t->eio) {
		ev("Y tread size=%zu pos=%ld EIO", size, t->pos);
		errno = EIO;
		return -1;
	}
	if ((long) size < n)
		n = (long) size;
	if (t->chunk > 0 && n > t->chunk)
		n = t->chunk;
	if (t->eio >= 0 && t->pos + n > t->eio)
		n = t->eio - t->pos;
	if (n < 0)
		n = 0;
	memcpy(buf, t->data + t->pos, (size_t) n);
	t->pos += n;
	return (ssize_t) n;
}
static int tf_seek(void *c, off64_t *off, int whence)
{
	tfile *t = (tfile *) c;
	long np;
	if (whence == SEEK_SET)
		np = (long) *off;
	else if (whence == SEEK_CUR)
		np = t->pos + (long) *off;
	else
		np = t->len + (long) *off;
	if (np < 0)
		return -1;
	t->pos = np;
	*off = np;
	return 0;
}
FILE *sim_tables_file(const sim_xop *x)
{
	cookie_io_functions_t io = { tf_read, NULL, tf_seek, cookie_close };
	long id = x->a;
	FILE *f;
	if (id < 0 || id >= ntfiles)
		die("bad tables file id %ld", id);
	tfiles[id].pos = 0;
	f = fopencookie(&tfiles[id], "r", io);
	if (!f)
		die("fopencookie failed");
	if (x->b > 0)
		setvbuf(f, NULL, _IOFBF, (size_t) x->b);
	else if (x->b < 0)
		setvbuf(f, NULL, _IONBF, 0);
	return f;
}

static int fresh_source(sim_inst *I)
{
	int i;
	for (i = 0; i < nsrc; i++)
		if (srcs[i].inst == I->id && !srcs[i].used) {
			srcs[i].used = 1;
			return i;
		}
	return -1;
}

/* ------------------------------------------------------------------ */
/* scheduler: one baton, handed over at every yield point               */
static int nalive(void)
{
	int i, n = 0;
	for (i = 0; i < ninst; i++)
		if (!instxs[i].finished)
			n++;
	return n;
}
static int pick_next(void)
{
	int n = nalive(), k, i;
	if (n == 0)
		return -1;
	k = nsched_list ? sched_list[sched_pos++ % nsched_list] % n : 0;
	for (i = 0; i < ninst; i++)
		if (!instxs[i].finished && k-- == 0)
			return i;
	return -1;
}
void sim_yield(void)
{
	sim_inst *I = sim_cur;
	int nx;
	if (free_run || ninst <= 1 || !I)
		return;
	nx = pick_next();
	if (nx == I->id || nx < 0)
		return;
	ev("S to=%d", nx);
	baton = nx;
	pthread_cond_broadcast(&cv);
	while (baton != I->id)
		pthread_cond_wait(&cv, &big);
}

/* ------------------------------------------------------------------ */
static void finish_all(const char *why)
{
	fprintf(logf, "%ld -1 Q %s\n", seqno++, why);
	fflush(logf);
	_exit(4);
}

void sim_fatal(const char *msg)
{
	sim_inst *I = sim_cur;
	ev("F %s", msg);
	if (!I || !I->jb_valid) {
		fflush(logf);
		_exit(5);
	}
	I->dead = 1;
	longjmp(I->jb, 1);
}

/* ------------------------------------------------------------------ */
/* buffers                                                              */
static int buf_handle(sim_inst *I, void *b)
{
	int i;
	for (i = 0; i < I->nbufs; i++)
		if (I->bufs[i].live && I->bufs[i].b == b)
			return i;
	return -1;
}
static int buf_new(sim_inst *I, void *b, int src, void *usermem)
{
	int h = I->nbufs;
	if (h >= SIM_MAXBUF)
		finish_all("too-many-buffers");
	I->nbufs++;
	I->bufs[h].b = b;
	I->bufs[h].live = 1;
	I->bufs[h].src = src;
	I->bufs[h].onstack = 0;
	I->bufs[h].usermem = usermem;
	I->bufs[h].exhausted = 0;
	I->bufs[h].memlen = -1;
	return h;
}
static void model_switch(sim_inst *I, int h)
{
	if (I->depth == 0) {
		I->stack[0] = h;
		I->depth = 1;
	} else {
		I->bufs[I->stack[I->depth - 1]].onstack = 0;
		I->stack[I->depth - 1] = h;
	}
	I->bufs[h].onstack = 1;
}
static void model_push(sim_inst *I, int h)
{
	I->stack[I->depth++] = h;
	I->bufs[h].onstack = 1;
}
static void model_kill(sim_inst *I, int h)
{
	I->bufs[h].live = 0;
	I->bufs[h].onstack = 0;
	I->bufs[h].b = NULL;
	if (I->bufs[h].usermem) {
		free(I->bufs[h].usermem);
		I->bufs[h].usermem = NULL;
	}
}
static void model_pop(sim_inst *I)
{
	if (I->depth > 0) {
		model_kill(I, I->stack[I->depth - 1]);
		I->depth--;
	}
}

void sim_buf_created(void *b, int src, void *usermem, int how)
{
	/* how: 0 plain create, 1 created and switched to, 2 created and pushed */
	sim_inst *I = sim_cur;
	int h;
	if (!b) {
		ev("B create-null");
		if (usermem)
			free(usermem);
		return;
	}
	h = buf_new(I, b, src, usermem);
	if (how == 1 || (how == 2 && I->depth == 0))
		model_switch(I, h);
	else if (how == 2)
		model_push(I, h);
	ev("B new h=%d src=%d how=%d", h, src, how);
}

/* the buffer just created holds a scanner-owned copy of len bytes */
void sim_buf_memlen(int len)
{
	sim_inst *I = sim_cur;
	if (I->nbufs > 0)
		I->bufs[I->nbufs - 1].memlen = len;
}

void sim_buf_replaced(void *b, int src)
{
	sim_inst *I = sim_cur;
	int old = I->depth ? I->stack[I->depth - 1] : -1;
	int h;
	if (old >= 0)
		model_kill(I, old);
	h = buf_new(I, b, src, NULL);
	if (I->depth == 0) {
		I->stack[0] = h;
		I->depth = 1;
	} else
		I->stack[I->depth - 1] = h;
	I->bufs[h].onstack = 1;
	ev("B replaced h=%d src=%d old=%d", h, src, old);
}

void sim_sync_current(void *b, FILE *in)
{
	sim_inst *I = sim_cur;
	int top = I->depth ? I->stack[I->depth - 1] : -1;
	if (!b) {
		if (top >= 0)
			ev("X curbuf-mismatch scanner=null model=%d", top);
		return;
	}
	if (top >= 0 && I->bufs[top].b == b)
		return;
	if (buf_handle(I, b) < 0 && top < 0) {
		/* implicitly created by yylex()/yyrestart()/yysetbol() from yyin */
		int h = buf_new(I, b, sim_src_of_file(in), NULL);
		model_switch(I, h);
		ev("B implicit h=%d src=%d", h, I->bufs[h].src);
		return;
	}
	ev("X curbuf-mismatch scanner=%d model=%d", buf_handle(I, b), top);
}

/* pick the k-th buffer satisfying a predicate; -1 if none */
enum { PK_LIVE, PK_OFFSTACK, PK_OFFSTACK_OR_CUR };
static int pick_buf(sim_inst *I, long k, int mode)
{
	int i, n = 0, cand[SIM_MAXBUF];
	int cur = I->depth ? I->stack[I->depth - 1] : -1;
	for (i = 0; i < I->nbufs; i++) {
		if (!I->bufs[i].live)
			continue;
		if (mode == PK_OFFSTACK && I->bufs[i].onstack)
			continue;
		if (mode == PK_OFFSTACK_OR_CUR && I->bufs[i].onstack && i != cur)
			continue;

		cand[n++] = i;
	}
	if (!n)
		return -1;
	if (k < 0)
		k = -k;
	return cand[k % n];
}

/* ------------------------------------------------------------------ */
/* resolution of ops ("modulo what is enabled")                         */
static long lmod(long a, long m)
{
	if (m <= 0)
		return 0;
	a %= m;
	return a < 0 ? a + m : a;
}

/* returns 1 if the op is to be executed, 0 if it is skipped.  Updates the
 * driver's model of handles/stack for ops that will be executed. */
static int is_bufop(int code)
{
	switch (code) {
	case SOP_CREATE_BUF: case SOP_SWITCH: case SOP_PUSH_BUF: case SOP_PUSHNEW: case SOP_SWITCHNEW:
	case SOP_POP_BUF: case SOP_FLUSH: case SOP_DELETE: case SOP_SCAN_BYTES: case SOP_SCAN_STRING:
	case SOP_SCAN_BUFFER: case SOP_RESTART: case SOP_NEWFILE:
		return 1;
	default:
		return 0;
	}
}

/* the serialized tables of a scanner are loaded once and shared by all its instances:
 * 0 not loaded, 2 some instance is loading them, 1 loaded */
static int vt_tables_state(const sim_scanner_vt *vt)
{
	int i, st = 0;
	for (i = 0; i < ninst; i++)
		if (insts[i].vt == vt) {
			if (insts[i].tables_loaded == 1)
				return 1;
			if (insts[i].tables_loaded == 2 && !instxs[i].finished)
				st = 2;
		}
	return st;
}
/* hand the baton to the instance that is loading the tables of vt (a waiting instance
 * must not depend on the plan's hand-over pattern ever reaching the loader) */
static void yield_to_loader(const sim_scanner_vt *vt)
{
	sim_inst *I = sim_cur;
	int i;
	if (free_run || !I)
		return;
	for (i = 0; i < ninst; i++)
		if (insts[i].vt == vt && insts[i].tables_loaded == 2 && !instxs[i].finished && i != I->id) {
			ev("S to=%d", i);
			baton = i;
			pthread_cond_broadcast(&cv);
			while (baton != I->id)
				pthread_cond_wait(&cv, &big);
			return;
		}
}

static int resolve(sim_inst *I, const plan_op *po, sim_xop *x, int in_action)
{
	const sim_scanner_vt *vt = I->vt;
	int h, s;
	/* what yymore() means across a change of buffer is not documented:
	 * an action that called yymore() performs no buffer op */
	if (in_action && !I->is_eof && I->did_more && is_bufop(po->code))
		return 0;
	memset(x, 0, sizeof *x);
	x->code = po->code;
	x->a = po->a;
	x->b = po->b;
	x->data = po->data;
	x->len = po->len;
	x->h = -1;
	if (vt->reentrant && !I->inited && po->code != SOP_INIT)
		return 0;
	switch (po->code) {
	case SOP_INIT:
		if (I->inited)
			return 0;
		return 1;
	case SOP_LESS:
		if (!in_action || I->is_eof || I->did_less || I->did_textop || I->did_bufop)
			return 0;
		if (!vt->text_is_array && I->more_prefix > 0 && !I->rejected && (po->a & 1))
			/* with %pointer the text kept by yymore() is still in the buffer: yyless(n)
			 * may give back part of it as well (n counts from the start of yytext) */
			x->a = lmod(po->a >> 1, I->cur_len + 1);
		else
			x->a = I->more_prefix + lmod(po->a, I->cur_len - I->more_prefix + 1);
		return 1;
	case SOP_UNPUT:
		/* yymore() together with yyunput()/yyinput() in one action is not a
		 * documented combination: never generated */
		if (!in_action || I->is_eof || I->did_bufop || I->did_more)
			return 0;
		x->a = po->a & 0xff;
		return 1;
	case SOP_INPUT:
		if (!in_action || I->is_eof || I->did_bufop || I->did_more)
			return 0;

		return 1;
	case SOP_MORE:
		if (!in_action || I->is_eof || I->did_bufop || I->did_textop || !vt->has_yymore)
			return 0;
		return 1;
	case SOP_REJECT:
		if (!in_action || I->is_eof || I->n_ops != 0 || !vt->has_reject || I->cur_rule == vt->default_rule)
			return 0;
		return 1;
	case SOP_BEGIN:
		x->a = lmod(po->a, vt->nconds);
		return 1;
	case SOP_PUSH_STATE:
		if (!vt->has_stack)
			return 0;
		x->a = lmod(po->a, vt->nconds);
		return 1;
	case SOP_POP_STATE:
	case SOP_TOP_STATE:
		return vt->has_stack;
	case SOP_GET_STATE:
		return 1;
	case SOP_RETURN:
		if (!in_action)
			return 0;
		x->a = 1 + lmod(po->a, 100);
		return 1;
	case SOP_TERMINATE:
		return in_action && I->is_eof;
	case SOP_CREATE_BUF:
	case SOP_PUSHNEW:
	case SOP_SWITCHNEW:
		s = fresh_source(I);
		if (s < 0)
			return 0;
		x->h = s;
		x->f = srcs[s].f;
		x->a = 1 + lmod(po->a - 1, 70000);
		return 1;
	case SOP_SWITCH:
		h = pick_buf(I, po->a, PK_OFFSTACK_OR_CUR);
		if (h < 0)
			return 0;
		/* from yywrap / an <<EOF>> action a switch to the buffer that is
		 * already current supplies no new input */
		if (in_action && I->is_eof && I->depth && I->stack[I->depth - 1] == h)
			return 0;
		x->h = h;
		x->p = I->bufs[h].b;
		if (!(I->depth && I->stack[I->depth - 1] == h))
			model_switch(I, h);
		return 1;
	case SOP_PUSH_BUF:
		h = pick_buf(I, po->a, PK_OFFSTACK);
		if (h < 0 || I->depth >= SIM_MAXBUF - 1)
			return 0;
		x->h = h;
		x->p = I->bufs[h].b;
		if (I->depth == 0)
			model_switch(I, h);
		else
			model_push(I, h);
		return 1;
	case SOP_POP_BUF:
		if (I->depth == 0)
			return 0;
		/* inside an ordinary action keep at least one buffer: the manual
		 * only pops the last one from <<EOF>> and then terminates */
		if (in_action && !I->is_eof && I->depth < 2)
			return 0;
		x->h = I->stack[I->depth - 1];
		model_pop(I);
		return 1;
	case SOP_FLUSH:
		h = pick_buf(I, po->a, PK_LIVE);
		if (h < 0)
			return 0;
		x->h = h;
		x->p = I->bufs[h].b;
		return 1;
	case SOP_DELETE:
		h = pick_buf(I, po->a, PK_OFFSTACK);
		if (h < 0)
			return 0;
		x->h = h;
		x->p = I->bufs[h].b;
		model_kill(I, h);
		return 1;
	case SOP_SCAN_BYTES:
	case SOP_SCAN_STRING:
	case SOP_SCAN_BUFFER:
		return !vt->no_mem_buffers;
	case SOP_RESTART:
		/* pointing an in-memory (yy_scan_*) buffer at a stream is not a
		 * documented use of yyrestart / yyin */
		if (I->depth > 0 && I->bufs[I->stack[I->depth - 1]].src == -1)
			return 0;
		if (po->a & 1) {
			/* restart on the stream the current buffer already has */
			x->h = -1;
			x->f = NULL;
			return I->depth > 0;
		}
		/* FALLTHROUGH */
	case SOP_SET_YYIN:
	case SOP_NEWFILE:
		if (po->code == SOP_NEWFILE && !(in_action && I->is_eof))
			return 0;
		if (I->depth > 0 && I->bufs[I->stack[I->depth - 1]].src == -1) {
			/* yywrap() may answer the end of a yy_scan_bytes/yy_scan_string
			 * buffer with a new yyin: the scanner then reads the stream
			 * into that buffer, which it owns.  Buffers shorter than two
			 * bytes cannot be grown by doubling and user-owned ones
			 * (yy_scan_buffer) not at all: not generated. */
			sim_bufent *cb = &I->bufs[I->stack[I->depth - 1]];
			if (!((allow_mask & 16) && po->code == SOP_SET_YYIN && in_action && I->is_eof && resolving_wrap
			      && cb->memlen >= 2 && !cb->usermem && !I->prev_more))
				return 0;
		}
		x->a = 0;
		if (po->code == SOP_SET_YYIN && !in_action && vt->no_mem_buffers && (I->n_setyyin++ & 1))
			/* C++: every other top-level change of the input is made with
			 * switch_streams(), which may be called at any time (it deletes
			 * the current buffer with whatever it still holds) */
			x->a = 2;
		/* the caller may point yyin elsewhere before the first yylex call,
		 * after yylex returned 0, or from yywrap / an <<EOF>> action */
		if (po->code == SOP_SET_YYIN && !in_action && I->lexed && !I->at_eof && x->a != 2)
			return 0;
		s = -1;
		if (x->a == 2 && !(I->n_setyyin & 3) && I->depth > 0 && I->bufs[I->stack[I->depth - 1]].src >= 0)
			/* every other switch_streams() names the stream the current buffer
			 * already reads: the buffer is replaced all the same */
			s = I->bufs[I->stack[I->depth - 1]].src;
		if (s < 0)
			s = fresh_source(I);
		if (s < 0)
			return 0;
		x->h = s;
		x->f = srcs[s].f;
		I->yyin_set = 1;
		I->yyin_src = s;
		return 1;
	case SOP_SETBOL:
		x->a = po->a & 1;
		return I->depth > 0;
	case SOP_SET_INTERACTIVE:
		x->a = po->a & 1;
		return I->depth > 0;
	case SOP_GET_LINENO:
		return 1;
	case SOP_SET_LINENO:
		x->a = lmod(po->a, 100000);
		return vt->reentrant ? I->depth > 0 : 1;
	case SOP_LEX:
		if (in_action)
			return 0;
		if (I->lexed && I->depth == 0)
			return 0;   /* no current buffer: not a permitted history */
		/* a --tables-file scanner must load its tables first; while another
		 * instance of the same scanner is loading them this one waits */
		while (vt->has_tables && I->tables_loaded != 1 && vt_tables_state(vt) == 2)
			yield_to_loader(vt);
		if (vt->has_tables && I->tables_loaded != 1 && vt_tables_state(vt) != 1)
			return 0;
		if (I->depth == 0 && !I->yyin_set) {
			/* never let the scanner fall back to the real stdin */
			s = fresh_source(I);
			if (s < 0)
				return 0;
			x->h = s;
			x->f = srcs[s].f;
			I->yyin_set = 1;
			I->yyin_src = s;
		}
		x->a = 1 + lmod(po->a - 1, 100000);
		return 1;
	case SOP_DESTROY:
		return !in_action;
	case SOP_TABLES_LOAD:
		x->a = lmod(po->a, ntfiles > 0 ? ntfiles : 1);
		return !in_action && vt->has_tables && !I->tables_loaded && vt_tables_state(vt) == 0 && ntfiles > 0;
	case SOP_TABLES_DESTROY:
		return !in_action && vt->has_tables;
	case SOP_NOP:
		return 1;
	default:
		return 0;
	}
}

static void log_xop(const char *tag, int idx, const sim_xop *x)
{
	if (x->data)
		ev("%s %d %s a=%ld b=%ld h=%d d=%s", tag, idx, opnames[x->code], x->a, x->b, x->h, hexs(x->data, x->len));
	else
		ev("%s %d %s a=%ld b=%ld h=%d", tag, idx, opnames[x->code], x->a, x->b, x->h);
}

/* ------------------------------------------------------------------ */
/* actions                                                              */
void sim_enter(int rule, int is_eof, const char *text, int leng, int start,
	       int lineno, int atbol, void *curbuf)
{
	sim_inst *I = sim_cur;
	instx *X = IX(I);
	I->act_ord++;
	I->in_action = 1;
	I->is_eof = is_eof;
	I->cur_rule = rule;
	I->cur_len = leng;
	if (is_eof) {
		/* an <<EOF>> action has no text: a pending yymore() stays pending */
		I->more_prefix = 0;
	} else {
		if (!I->rejected) {
			/* (after REJECT the next alternative keeps the same yymore prefix) */
			I->more_prefix = I->prev_more ? I->prev_len : 0;
		}
		if (I->more_prefix > leng)
			I->more_prefix = leng;
		I->prev_more = 0;
		I->rejected = 0;
	}
	I->did_textop = I->did_less = I->did_bufop = I->did_more = I->n_ops = 0;
	I->input_eof = 0;
	I->provided_input = 0;
	while (X->act_pos < X->acts.n && X->acts.v[X->act_pos].ord < I->act_ord)
		X->act_pos++;
	if (curbuf && I->depth == 0 && buf_handle(I, curbuf) < 0) {
		/* buffer created implicitly by yylex() from yyin */
		int h = buf_new(I, curbuf, I->yyin_set ? I->yyin_src : -2, NULL);
		model_switch(I, h);
		ev("B implicit h=%d src=%d", h, I->bufs[h].src);
	}
	if (is_eof)
		ev("E ord=%ld rule=%d start=%d lineno=%d buf=%d", I->act_ord, rule, start, lineno, buf_handle(I, curbuf));
	else
		ev("T ord=%ld rule=%d len=%d text=%s start=%d lineno=%d bol=%d buf=%d",
		   I->act_ord, rule, leng, hexs((const unsigned char *) text, leng), start, lineno, atbol, buf_handle(I, curbuf));
	sim_yield();
}

int sim_next_op(sim_xop *x)
{
	sim_inst *I = sim_cur;
	instx *X = IX(I);
	while (X->act_pos < X->acts.n && X->acts.v[X->act_pos].ord == I->act_ord) {
		plan_op *po = &X->acts.v[X->act_pos++];
		if (!resolve(I, po, x, 1))
			continue;
		log_xop("O", (int) (po - X->acts.v), x);
		I->n_ops++;
		I->wrap_stop_in_op = 0;
		switch (x->code) {
		case SOP_LESS: I->did_less = 1; I->cur_len = (int) x->a; if (I->more_prefix > I->cur_len) I->more_prefix = I->cur_len; break;
		case SOP_UNPUT: case SOP_INPUT: I->did_textop = 1; break;
		case SOP_MORE: I->prev_more = 1; I->did_more = 1; break;
		case SOP_REJECT: I->rejected = 1; break;
		case SOP_SWITCH: case SOP_PUSH_BUF: case SOP_PUSHNEW: case SOP_SWITCHNEW:
		case SOP_POP_BUF: case SOP_SCAN_BYTES: case SOP_SCAN_STRING: case SOP_SCAN_BUFFER:
		case SOP_NEWFILE: case SOP_RESTART: case SOP_FLUSH:
			I->did_bufop = 1;
			if (x->code == SOP_POP_BUF)
				I->provided_input = I->depth > 0;
			else if (x->code != SOP_FLUSH)
				I->provided_input = 1;
			break;
		case SOP_RETURN:
			I->provided_input = 1; /* do not force termination */
			break;
		default: break;
		}
		return x->code;
	}
	x->code = SOP_END;
	return SOP_END;
}

void sim_leave(void)
{
	sim_inst *I = sim_cur;
	/* remember yyleng at the end of an action that called yymore() */
	if (!I->is_eof)
		I->prev_len = I->cur_len;
	I->in_action = 0;
}

void sim_res_int(const char *what, long v)
{
	sim_inst *I = sim_cur;
	if (I && I->in_action && v == 0 && I->wrap_stop_in_op && !strcmp(what, "input"))
		I->input_eof = 1;
	ev("V %s=%ld", what, v);
}
void sim_res_text(const char *what, const char *text, int leng)
{
	sim_inst *I = sim_cur;
	if (I && I->in_action && !strcmp(what, "less"))
		I->cur_len = leng;
	ev("V %s len=%d text=%s", what, leng, hexs((const unsigned char *) text, leng));
}
void sim_res_state(int start, int lineno, int atbol)
{
	ev("V st start=%d lineno=%d bol=%d", start, lineno, atbol);
}

int sim_wrap_next(sim_xop *x)
{
	sim_inst *I = sim_cur;
	instx *X = IX(I);
	int cur_mem = I->depth > 0 && I->bufs[I->stack[I->depth - 1]].src == -1;
	sim_yield();
	if (cur_mem)
		I->bufs[I->stack[I->depth - 1]].exhausted = 1;
	while (X->wrap_pos < X->wraps.n) {
		plan_op *po = &X->wraps.v[X->wrap_pos++];
		int save_in = I->in_action, save_eof = I->is_eof;
		int ok;
		if (po->code == SOP_STOP) {
			x->code = SOP_STOP;
			I->wrap_stop_in_op = 1;
			ev("W %d STOP a=0 b=0 h=-1", (int) (po - X->wraps.v));
			return SOP_STOP;
		}
		/* yywrap may do what an <<EOF>> action may do */
		I->in_action = 1;
		I->is_eof = 1;
		if (po->code == SOP_POP_BUF && I->depth < 2)
			ok = 0;

		else {
			resolving_wrap = 1;
			ok = resolve(I, po, x, 1);
			resolving_wrap = 0;
		}
		I->in_action = save_in;
		I->is_eof = save_eof;
		if (!ok)
			continue;
		log_xop("W", (int) (po - X->wraps.v), x);
		return x->code;
	}
	x->code = SOP_STOP;
	I->wrap_stop_in_op = 1;
	ev("W -1 STOP a=0 b=0 h=-1");
	return SOP_STOP;
}
void sim_wrap_done(int ret, int start)
{
	ev("V wrap=%d start=%d", ret, start);
}

void sim_log_lex(int ret, int start, int lineno)
{
	sim_inst *I = sim_cur;
	I->lex_calls++;
	I->in_action = 0;
	I->at_eof = (ret == 0);
	ev("L ret=%d start=%d lineno=%d", ret, start, lineno);
	if (I->lex_calls > max_lex)
		finish_all("lex-cap");
}

/* ------------------------------------------------------------------ */
/* plan parsing                                                         */
static void opl_add(oplist *l, plan_op o)
{
	if (l->n == l->cap) {
		l->cap = l->cap ? l->cap * 2 : 16;
		l->v = (plan_op *) realloc(l->v, l->cap * sizeof(plan_op));
	}
	l->v[l->n++] = o;
}
static int opcode_of(const char *s)
{
	int i;
	for (i = 0; i < SOP__MAX; i++)
		if (!strcmp(opnames[i], s))
			return i;
	die("unknown op %s", s);
	return -1;
}
static int hexval(int c)
{
	if (c >= '0' && c <= '9') return c - '0';
	if (c >= 'a' && c <= 'f') return c - 'a' + 10;
	if (c >= 'A' && c <= 'F') return c - 'A' + 10;
	return -1;
}
static unsigned char *unhex(const char *s, int *len)
{
	size_t n = strlen(s);
	unsigned char *p;
	size_t i;
	if (!strcmp(s, "-")) {
		*len = 0;
		return (unsigned char *) calloc(1, 1);
	}
	p = (unsigned char *) malloc(n / 2 + 1);
	for (i = 0; i + 1 < n; i += 2)
		p[i / 2] = (unsigned char) (hexval(s[i]) * 16 + hexval(s[i + 1]));
	*len = (int) (n / 2);
	return p;
}
static int *parse_intlist(const char *s, int *n)
{
	int cap = 16, *v = (int *) malloc(cap * sizeof(int));
	*n = 0;
	while (*s) {
		int val;
		if (*n == cap) {
			cap *= 2;
			v = (int *) realloc(v, cap * sizeof(int));
		}
		if (*s == 'E') { val = SE_EOF; s++; }
		else if (*s == 'I') { val = SE_EINTR; s++; }
		else if (*s == 'X') { val = SE_EIO; s++; }
		else {
			char *e;
			val = (int) strtol(s, &e, 10);
			if (e == s)
				die("bad list near '%s'", s);
			s = e;
		}
		v[(*n)++] = val;
		if (*s == ',')
			s++;
	}
	return v;
}

static plan_op parse_op(char **tok, int ntok)
{
	plan_op o;
	int i;
	memset(&o, 0, sizeof o);
	o.code = opcode_of(tok[0]);
	for (i = 1; i < ntok; i++) {
		if (!strncmp(tok[i], "a=", 2)) o.a = strtol(tok[i] + 2, NULL, 10);
		else if (!strncmp(tok[i], "b=", 2)) o.b = strtol(tok[i] + 2, NULL, 10);
		else if (!strncmp(tok[i], "d=", 2)) o.data = unhex(tok[i] + 2, &o.len);
		else die("bad op argument %s", tok[i]);
	}
	return o;
}

static void parse_line(char *line)
{
	char *tok[32];
	int nt = 0;
	char *p = strtok(line, " \t\r\n");
	while (p && nt < 32) {
		tok[nt++] = p;
		p = strtok(NULL, " \t\r\n");
	}
	if (!nt || tok[0][0] == '#')
		return;
	if (!strcmp(tok[0], "junk")) {
		junk_seed = strtoul(tok[1], NULL, 10);
		junk_pat = nt > 2 ? atoi(tok[2]) : 0;
	} else if (!strcmp(tok[0], "limit")) {
		max_events = atol(tok[1]);
		if (nt > 2) max_lex = atol(tok[2]);
	} else if (!strcmp(tok[0], "allow")) {
		allow_mask = atoi(tok[1]);
	} else if (!strcmp(tok[0], "freerun")) {
		free_run = atoi(tok[1]);
	} else if (!strcmp(tok[0], "realloc_moves")) {
		realloc_moves = atoi(tok[1]);
	} else if (!strcmp(tok[0], "sched")) {
		sched_list = parse_intlist(tok[1], &nsched_list);
	} else if (!strcmp(tok[0], "inst")) {
		int id = atoi(tok[1]);
		if (id != ninst || id >= MAXINST)
			die("instances must be numbered consecutively");
		memset(&insts[id], 0, sizeof insts[id]);
		insts[id].id = id;
		insts[id].act_ord = -1;
		strncpy(instxs[id].scn, nt > 2 ? tok[2] : "*", sizeof instxs[id].scn - 1);
		ninst++;
	} else if (!strcmp(tok[0], "src")) {
		source *s;
		int i;
		int id = atoi(tok[1]);
		if (id != nsrc || id >= MAXSRC)
			die("sources must be numbered consecutively");
		s = &srcs[nsrc++];
		memset(s, 0, sizeof *s);
		s->id = id;
		s->data = (unsigned char *) calloc(1, 1);
		for (i = 2; i < nt; i++) {
			if (!strncmp(tok[i], "inst=", 5)) s->inst = atoi(tok[i] + 5);
			else if (!strncmp(tok[i], "kind=", 5)) s->kind = !strcmp(tok[i] + 5, "stdio") ? SK_STDIO : SK_USER;
			else if (!strncmp(tok[i], "data=", 5)) s->data = unhex(tok[i] + 5, &s->len);
			else if (!strncmp(tok[i], "sched=", 6)) s->sched = parse_intlist(tok[i] + 6, &s->nsched);
			else if (!strncmp(tok[i], "vbuf=", 5)) s->vbuf = atoi(tok[i] + 5);
			else die("bad src field %s", tok[i]);
		}
	} else if (!strcmp(tok[0], "tfile")) {
		/* tfile <id> path=a+b+c trunc=N chunk=N eio=N flip=off:xor,off:xor */
		tfile *t;
		int i;
		int id = atoi(tok[1]);
		if (id != ntfiles || id >= MAXTFILE)
			die("tables files must be numbered consecutively");
		t = &tfiles[ntfiles++];
		memset(t, 0, sizeof *t);
		t->eio = -1;
		t->data = (unsigned char *) calloc(1, 1);
		for (i = 2; i < nt; i++) {
			if (!strncmp(tok[i], "path=", 5)) {
				char *q = tok[i] + 5;
				while (q && *q) {
					char *plus = strchr(q, '+');
					FILE *f;
					long n;
					if (plus)
						*plus = 0;
					f = fopen(q, "rb");
					if (!f)
						die("cannot open tables file %s", q);
					fseek(f, 0, SEEK_END);
					n = ftell(f);
					fseek(f, 0, SEEK_SET);
					t->data = (unsigned char *) realloc(t->data, (size_t) (t->len + n + 1));
					if (fread(t->data + t->len, 1, (size_t) n, f) != (size_t) n)
						die("short read on %s", q);
					fclose(f);
					t->len += n;
					q = plus ? plus + 1 : NULL;
				}
			} else if (!strncmp(tok[i], "trunc=", 6)) {
				long n = atol(tok[i] + 6);
				if (n < t->len)
					t->len = n;
			} else if (!strncmp(tok[i], "chunk=", 6)) {
				t->chunk = atoi(tok[i] + 6);
			} else if (!strncmp(tok[i], "eio=", 4)) {
				t->eio = atol(tok[i] + 4);
			} else if (!strncmp(tok[i], "flip=", 5)) {
				char *q = tok[i] + 5;
				while (*q) {
					char *e;
					long off = strtol(q, &e, 10);
					long x = 0;
					if (*e == ':')
						x = strtol(e + 1, &e, 10);
					if (off >= 0 && off < t->len)
						t->data[off] ^= (unsigned char) x;
					q = *e == ',' ? e + 1 : e;
				}
			} else
				die("bad tfile field %s", tok[i]);
		}
	} else if (!strcmp(tok[0], "top")) {
		int id = atoi(tok[1]);
		opl_add(&instxs[id].top, parse_op(tok + 2, nt - 2));
	} else if (!strcmp(tok[0], "act")) {
		int id = atoi(tok[1]);
		plan_op o = parse_op(tok + 3, nt - 3);
		oplist *l = &instxs[id].acts;
		o.ord = atol(tok[2]);
		if (l->n && l->v[l->n - 1].ord > o.ord)
			die("act lines must be sorted by ordinal");
		opl_add(l, o);
	} else if (!strcmp(tok[0], "wrap")) {
		int id = atoi(tok[1]);
		opl_add(&instxs[id].wraps, parse_op(tok + 2, nt - 2));
	} else if (!strcmp(tok[0], "fault")) {
		/* fault alloc <inst> <topidx> <nth> */
		int id = atoi(tok[2]);
		instx *X = &instxs[id];
		X->faults = (afault *) realloc(X->faults, (X->nfaults + 1) * sizeof(afault));
		X->faults[X->nfaults].top = atoi(tok[3]);
		X->faults[X->nfaults].nth = atoi(tok[4]);
		X->nfaults++;
	} else
		die("bad plan line '%s'", tok[0]);
}

static void open_sources(void)
{
	int i;
	for (i = 0; i < nsrc; i++) {
		cookie_io_functions_t io = { cookie_read, NULL, NULL, cookie_close };
		source *s = &srcs[i];
		s->f = fopencookie(s, "r", io);
		if (!s->f)
			die("fopencookie failed");
		if (s->vbuf <= 0)
			setvbuf(s->f, NULL, _IONBF, 0);
		else
			setvbuf(s->f, NULL, _IOFBF, (size_t) s->vbuf);
	}
}

/* ------------------------------------------------------------------ */
static void run_instance(sim_inst *I)
{
	instx *X = IX(I);
	int i;
	for (i = 0; i < X->top.n && !I->dead; i++) {
		sim_xop x;
		I->cur_top = i;
		I->allocs_in_top = 0;
		I->in_action = 0;
		if (X->top.v[i].code == SOP_DESTROY && resolve(I, &X->top.v[i], &x, 0)) {
			/* the caller deletes its own non-current buffers first */
			int h;
			for (h = 0; h < I->nbufs && !I->dead; h++) {
				if (I->bufs[h].live && !I->bufs[h].onstack) {
					sim_xop d;
					memset(&d, 0, sizeof d);
					d.code = SOP_DELETE;
					d.h = h;
					d.p = I->bufs[h].b;
					model_kill(I, h);
					log_xop("P", i, &d);
					if (setjmp(I->jb) == 0) {
						I->jb_valid = 1;
						I->vt->exec_top(I, &d);
					}
					I->jb_valid = 0;
				}
			}
			if (I->dead)
				break;
		}
		if (!resolve(I, &X->top.v[i], &x, 0)) {
			ev("K %d %s", i, opnames[X->top.v[i].code]);
			continue;
		}
		log_xop("P", i, &x);
		if (setjmp(I->jb) == 0) {
			I->jb_valid = 1;
			I->vt->exec_top(I, &x);
			if (x.code == SOP_DESTROY) {
				/* everything on the stack was deleted by the scanner */
				while (I->depth)
					model_pop(I);
				I->lexed = 0;
				I->yyin_set = 0;
				I->prev_more = 0;
				if (I->vt->reentrant)
					I->inited = 0;
				ev("D destroyed live=%ld bytes=%ld tables=%d", X->live_cnt, X->live_bytes, I->tables_loaded);
			}
		}
		I->jb_valid = 0;
		sim_yield();
	}
	ev("Z end dead=%d live=%ld bytes=%ld lex=%ld", I->dead, X->live_cnt, X->live_bytes, I->lex_calls);
}

static void *thread_main(void *arg)
{
	sim_inst *I = (sim_inst *) arg;
	int nx;
	sim_cur = I;
	if (!free_run) {
		pthread_mutex_lock(&big);
		while (baton != I->id)
			pthread_cond_wait(&cv, &big);
	}
	run_instance(I);
	IX(I)->finished = 1;
	if (!free_run) {
		nx = pick_next();
		if (nx >= 0)
			ev("S to=%d", nx);
		baton = nx;
		pthread_cond_broadcast(&cv);
		pthread_mutex_unlock(&big);
	}
	return NULL;
}

static int run_plan_text(char *text)
{
	char *save = NULL, *line;
	int i;
	for (line = strtok_r(text, "\n", &save); line; line = strtok_r(NULL, "\n", &save)) {
		char *copy = strdup(line);
		/* strtok inside parse_line uses its own state */
		parse_line(copy);
		free(copy);
	}
	if (!ninst)
		die("plan has no instance");
	for (i = 0; i < ninst; i++) {
		insts[i].vt = find_scanner(instxs[i].scn);
		if (!insts[i].vt)
			die("unknown scanner '%s'", instxs[i].scn);
	}
	open_sources();
	fprintf(logf, "%ld -1 H ninst=%d nsrc=%d junk=%lu/%d freerun=%d\n", seqno++, ninst, nsrc, junk_seed, junk_pat, free_run);
	if (ninst == 1) {
		sim_cur = &insts[0];
		run_instance(&insts[0]);
	} else {
		baton = -2;
		for (i = 0; i < ninst; i++)
			if (pthread_create(&instxs[i].th, NULL, thread_main, &insts[i]))
				die("pthread_create failed");
		if (!free_run) {
			pthread_mutex_lock(&big);
			sim_cur = NULL;
			baton = pick_next();
			pthread_cond_broadcast(&cv);
			pthread_mutex_unlock(&big);
		}
		for (i = 0; i < ninst; i++)
			pthread_join(instxs[i].th, NULL);
		sim_cur = NULL;
	}
	fprintf(logf, "%ld -1 Q done\n", seqno++);
	fflush(logf);
	return 0;
}

static char *slurp(const char *path)
{
	FILE *f = strcmp(path, "-") ? fopen(path, "r") : stdin;
	size_t cap = 1 << 16, n = 0, r;
	char *buf;
	if (!f)
		die("cannot open %s", path);
	buf = (char *) malloc(cap);
	while ((r = fread(buf + n, 1, cap - n - 1, f)) > 0) {
		n += r;
		if (cap - n < 2) {
			cap *= 2;
			buf = (char *) realloc(buf, cap);
		}
	}
	buf[n] = 0;
	if (f != stdin)
		fclose(f);
	return buf;
}

#ifdef SIM_ASAN
void __sanitizer_set_death_callback(void (*cb)(void));
static void on_death(void)
{
	if (logf) {
		fprintf(logf, "%ld -1 Q sanitizer\n", seqno++);
		fflush(logf);
	}
}
#endif

int main(int argc, char **argv)
{
	int timeout = 20;
	pthread_mutexattr_t ma;
	pthread_mutexattr_init(&ma);
	pthread_mutexattr_settype(&ma, PTHREAD_MUTEX_RECURSIVE);
	pthread_mutex_init(&big, &ma);
	logf = stdout;
	sim_devnull = fopen("/dev/null", "w");
	signal(SIGPIPE, SIG_IGN);
#ifdef SIM_ASAN
	__sanitizer_set_death_callback(on_death);
#endif
	if (argc >= 4 && !strcmp(argv[3], "-t"))
		timeout = atoi(argv[4]);
	if (argc >= 3 && !strcmp(argv[1], "-p")) {
		char *text = slurp(argv[2]);
		alarm((unsigned) timeout);
		return run_plan_text(text);
	}
	if (argc >= 3 && !strcmp(argv[1], "-b")) {
		char *text = slurp(argv[2]);
		char *p = text;
		int hangs = 0;
		while (p && *p) {
			char *hdr, *body, *next;
			char id[128];
			pid_t pid;
			int st = 0;
			if (strncmp(p, "=== ", 4))
				die("batch file must start each plan with '=== id'");
			hdr = p + 4;
			body = strchr(hdr, '\n');
			if (!body)
				break;
			snprintf(id, sizeof id, "%.*s", (int) (body - hdr), hdr);
			body++;
			next = strstr(body, "\n=== ");
			if (next) {
				*next = 0;
				next++;
			}
			if (hangs >= 3) {
				/* this scanner hangs again and again: do not spend the
				 * time-out on every remaining plan of the batch */
				printf("### begin %s\n### end %s skipped\n", id, id);
				p = next;
				continue;
			}
			printf("### begin %s\n", id);
			fflush(stdout);
			pid = fork();
			if (pid == 0) {
				alarm((unsigned) timeout);
				run_plan_text(body);
				fflush(stdout);
				if (__llvm_profile_write_file)   /* coverage builds only (tools/skeleton_coverage.py) */
					__llvm_profile_write_file();
				_exit(0);
			}
			if (pid < 0)
				die("fork failed");
			while (waitpid(pid, &st, 0) < 0 && errno == EINTR)
				;
			if (WIFSIGNALED(st) && WTERMSIG(st) == SIGALRM)
				hangs++;
			if (WIFSIGNALED(st))
				printf("### end %s signal=%d\n", id, WTERMSIG(st));
			else
				printf("### end %s exit=%d\n", id, WEXITSTATUS(st));
			fflush(stdout);
			p = next;
		}
		return 0;
	}
	fprintf(stderr, "usage: sim -p plan | -b batch [-t seconds]\n");
	return 2;
}

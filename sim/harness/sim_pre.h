/* sim_pre.h - included from the %{ %} block of section 1 of every generated
 * .l file.  Routes the scanner's seams to the simulator and defines the
 * action interpreter macros.  Configuration macros (emitted by the scenario
 * generator before the #include):
 *   SIM_NAME "s0"     SIM_FLAVOR 0=cpp non-reentrant 1=cpp reentrant 2=c99 3=c++
 *   SIM_NCONDS SIM_HAS_LINENO SIM_HAS_STACK SIM_HAS_REJECT SIM_HAS_YYMORE
 *   SIM_BOL_NEEDED SIM_TEXT_IS_ARRAY SIM_DEFAULT_RULE SIM_HAS_TABLES
 *   SIM_USER_INPUT (1: YY_INPUT is the simulator's routine; 0: skeleton's own
 *   stdio/read(2) code reads from a simulated FILE*)
 */
#ifndef SIM_PRE_H
#define SIM_PRE_H
#include "sim.h"

#define SIM_NR 0
#define SIM_R 1
#define SIM_C99 2
#define SIM_CXX 3

#if SIM_FLAVOR == SIM_NR
#define SC_
#define SC__
#define SC_DECL_ void
#define SC_DECL__
#elif SIM_FLAVOR == SIM_R || SIM_FLAVOR == SIM_C99
#define SC_ yyscanner
#define SC__ , yyscanner
#define SC_DECL_ yyscan_t yyscanner
#define SC_DECL__ , yyscan_t yyscanner
#endif

#if SIM_FLAVOR == SIM_CXX
#define SC_
#define SC__
#include <istream>
#include <streambuf>
/* the lexer class of the scenario: the generated yylex() is a member of it (%option yyclass),
 * the virtual hooks of yyFlexLexer are the seams */
class SimLexer : public yyFlexLexer {
public:
	sim_inst *I;
	explicit SimLexer(sim_inst *i) : yyFlexLexer((std::istream *) 0, (std::ostream *) 0), I(i) {}
	int yylex();
	int yywrap();
	void exec_top(const sim_xop *x);
	void common_op(const sim_xop *x);
	FILE *in_file();
protected:
#if SIM_USER_INPUT
	int LexerInput(char *buf, int max_size);     /* the simulator's routine; otherwise yyFlexLexer's own, on a simulated std::streambuf */
#endif
	void LexerOutput(const char *buf, int size) { (void) buf; (void) size; }
	void LexerError(const char *msg) { sim_fatal(msg); }
};
static std::istream *sim_stream_of(FILE *f);
#define yyecho() \
	do { \
		sim_enter(SIM_DEFAULT_RULE, 0, yytext, yyleng, yystart(), yylineno, yyatbol(), (void *) yy_current_buffer()); \
		sim_leave(); \
	} while (0)
#define SIM_YYBEGIN(s) yybegin(s)
#define SIM_YYSTART() yystart()
#define SIM_ATBOL() yyatbol()
#define SIM_SETBOL(v) yysetbol(v)
#define SIM_SETINTERACTIVE(v) yy_set_interactive(v)
#define SIM_LINENO_IN_ACTION yylineno
#define SIM_TEXT yytext
#define SIM_LENG yyleng
#define SIM_CURBUF() ((void *) yy_current_buffer())
#define SIM_UNPUT(c) yyunput(c)
#define SIM_INPUT() yyinput()
#define SIM_TERMINATE() yyterminate()
#define SIM_NEWFILE(f) yyrestart(sim_stream_of(f))
#define sim_common_op(x) this->common_op(x)
#endif

#if defined(SIM_READ_SYSCALL) && SIM_READ_SYSCALL
/* -Cr: yyread() is `read(fileno(yyin), buf, n)`.  The scanner was generated with
 * %option nounistd, so both names are ours to define; the descriptor of a simulated
 * source is 1000 + its number */
#define read(fd, b, n) sim_sys_read((fd), (b), (n))
#define fileno(f) sim_fileno(f)
#endif

#if SIM_FLAVOR == SIM_NR || SIM_FLAVOR == SIM_R
#if SIM_USER_INPUT
#define YY_INPUT(buf, result, max_size) \
	do { (result) = sim_read_user(yyin, (buf), (size_t) (max_size)); } while (0)
#endif
#define YY_FATAL_ERROR(msg) sim_fatal(msg)
/* the default rule's action is "yyecho();": log it as a token */
#define yyecho() \
	do { \
		sim_enter(SIM_DEFAULT_RULE, 0, yytext, yyleng, yystart(), yylineno, yyatbol(), (void *) yy_current_buffer()); \
		sim_leave(); \
	} while (0)
#define SIM_YYBEGIN(s) yybegin(s)
#define SIM_YYSTART() yystart()
#define SIM_ATBOL() yyatbol()
#define SIM_SETBOL(v) yysetbol(v)
#define SIM_SETINTERACTIVE(v) yy_set_interactive(v)
#define SIM_LINENO_IN_ACTION yylineno
#define SIM_TEXT yytext
#define SIM_LENG yyleng
#define SIM_CURBUF() ((void *) yy_current_buffer())
#define SIM_UNPUT(c) yyunput(c)
#define SIM_INPUT() yyinput(SC_)
#define SIM_YYIN yyin
#define SIM_TERMINATE() yyterminate()
#define SIM_NEWFILE(f) do { SIM_YYIN = (f); yyrestart(SIM_YYIN SC__); } while (0)
#endif

#if SIM_FLAVOR == SIM_C99
/* with %option noyyalloc/noyyrealloc/noyyfree/noyypanic/noyyread the c99 skeleton declares nothing */
void *yyalloc(size_t n, yyscan_t yyscanner);
void *yyrealloc(void *p, size_t n, yyscan_t yyscanner);
void yyfree(void *p, yyscan_t yyscanner);
void yypanic(const char *msg, yyscan_t yyscanner);
int yywrap(yyscan_t yyscanner);
#if SIM_USER_INPUT
int yyread(char *buf, size_t max_size, yyscan_t yyscanner);
#endif
#define SIM_YYBEGIN(s) yybegin((s), yyscanner)
#define SIM_YYSTART() yystart(yyscanner)
#define SIM_ATBOL() yyatbol(yyscanner)
#define SIM_SETBOL(v) yysetbol((v), yyscanner)
#define SIM_SETINTERACTIVE(v) yy_set_interactive((v), yyscanner)
#define SIM_LINENO_IN_ACTION yyget_lineno(yyscanner)
#define SIM_TEXT yyget_text(yyscanner)
#define SIM_LENG yyget_leng(yyscanner)
#define SIM_CURBUF() ((void *) yy_current_buffer(yyscanner))
#define SIM_UNPUT(c) yyunput((char) (c), yyscanner)
#define SIM_INPUT() yyinput(yyscanner)
#define SIM_YYIN (yyscanner->yyin_r)
#define SIM_TERMINATE() return 0
#endif

#if SIM_HAS_STACK
#define SIM_CASE_STACK \
	case SOP_PUSH_STATE: yy_push_state((int) sim_x.a SC__); break; \
	case SOP_POP_STATE: yy_pop_state(SC_); break; \
	case SOP_TOP_STATE: sim_res_int("top", yy_top_state(SC_)); break;
#else
#define SIM_CASE_STACK
#endif

#if SIM_FLAVOR == SIM_NR || SIM_FLAVOR == SIM_R || SIM_FLAVOR == SIM_CXX
#if SIM_HAS_REJECT
#define SIM_CASE_REJECT case SOP_REJECT: sim_leave(); REJECT;
#else
#define SIM_CASE_REJECT
#endif
#if SIM_HAS_YYMORE
#define SIM_CASE_MORE case SOP_MORE: yymore(); break;
#else
#define SIM_CASE_MORE
#endif
#define SIM_CASE_LESS \
	case SOP_LESS: yyless((int) sim_x.a); sim_res_text("less", SIM_TEXT, SIM_LENG); break;
#endif

#define SIM_POST() sim_res_state(SIM_YYSTART(), SIM_LINENO_IN_ACTION, SIM_CURBUF() ? SIM_ATBOL() : -1)

#if SIM_FLAVOR != SIM_CXX
static void sim_common_op(const sim_xop *x SC_DECL__);
#endif

#if SIM_FLAVOR != SIM_C99
/* the interpreter run by every ordinary rule action */
#define SIM_ACTION(k) \
	do { \
		sim_xop sim_x; \
		int sim_go = 1; \
		sim_enter((k), 0, SIM_TEXT, SIM_LENG, SIM_YYSTART(), SIM_LINENO_IN_ACTION, SIM_ATBOL(), SIM_CURBUF()); \
		while (sim_go) { \
			switch (sim_next_op(&sim_x)) { \
			case SOP_END: sim_go = 0; break; \
			SIM_CASE_LESS \
			case SOP_UNPUT: SIM_UNPUT((int) sim_x.a); SIM_POST(); break; \
			case SOP_INPUT: { int sim_c = SIM_INPUT(); sim_res_int("input", sim_c); SIM_POST(); } break; \
			SIM_CASE_MORE \
			SIM_CASE_REJECT \
			case SOP_BEGIN: SIM_YYBEGIN((int) sim_x.a); break; \
			SIM_CASE_STACK \
			case SOP_GET_STATE: sim_res_int("state", SIM_YYSTART()); break; \
			case SOP_RETURN: sim_leave(); return (int) sim_x.a; \
			default: sim_common_op(&sim_x SC__); break; \
			} \
		} \
		sim_leave(); \
	} while (0)

/* the interpreter run by every <<EOF>> action: unless an op gave the
 * scanner something new to read it terminates, as the manual requires */
#define SIM_EOF_ACTION(k) \
	do { \
		sim_xop sim_x; \
		int sim_go = 1; \
		sim_enter((k), 1, "", 0, SIM_YYSTART(), SIM_CURBUF() ? SIM_LINENO_IN_ACTION : -1, 0, SIM_CURBUF()); \
		while (sim_go) { \
			switch (sim_next_op(&sim_x)) { \
			case SOP_END: sim_go = 0; break; \
			case SOP_BEGIN: SIM_YYBEGIN((int) sim_x.a); break; \
			SIM_CASE_STACK \
			case SOP_GET_STATE: sim_res_int("state", SIM_YYSTART()); break; \
			case SOP_RETURN: sim_leave(); return (int) sim_x.a; \
			case SOP_TERMINATE: sim_leave(); SIM_TERMINATE(); \
			case SOP_NEWFILE: SIM_NEWFILE(sim_x.f); break; \
			default: sim_common_op(&sim_x SC__); break; \
			} \
		} \
		sim_leave(); \
		if (!sim_cur->provided_input) { SIM_TERMINATE(); } \
	} while (0)
#endif

#endif

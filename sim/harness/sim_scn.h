/* sim_scn.h - included in section 3 (user code) of every generated .l file
 * for the cpp (non-reentrant, reentrant) and c99 back ends.  Supplies the
 * user-provided routines the scanner was told to expect (yyalloc family,
 * yywrap) and the adapter that executes top-level ops. */

#if SIM_FLAVOR == SIM_CXX
/* ------------------------------------------------------------------ */
/* C++ lexer class (%option c++ yyclass="SimLexer")                     */
#include <map>
#include <mutex>

/* one std::istream per simulated source.  With SIM_USER_INPUT nothing is ever read through it
 * (SimLexer::LexerInput asks the simulator, the stream buffer only identifies the source); without,
 * yyFlexLexer::LexerInput reads it like any stream: get() one character at a time in interactive
 * scanners, read() of whole blocks otherwise - a stream buffer never returns less than was asked
 * for unless the source has ended, so the read schedule only decides where the ends fall */
struct SimSB : public std::streambuf {
	FILE *f;
	char ch;
	explicit SimSB(FILE *ff) : f(ff), ch(0) {}
protected:
	int_type underflow()
	{
		if (gptr() < egptr())
			return traits_type::to_int_type(*gptr());
		if (sim_read_user(f, &ch, 1) <= 0)
			return traits_type::eof();
		setg(&ch, &ch, &ch + 1);
		return traits_type::to_int_type(ch);
	}
	std::streamsize xsgetn(char *s, std::streamsize n)
	{
		std::streamsize got = 0;
		while (got < n) {
			if (gptr() < egptr()) {
				s[got++] = *gptr();
				gbump(1);
				continue;
			}
			int r = sim_read_user(f, s + got, (size_t) (n - got));
			if (r <= 0)
				break;
			got += r;
		}
		return got;
	}
};
static std::mutex sim_streams_mu;
static std::map<FILE *, std::istream *> sim_streams;
static std::istream *sim_stream_of(FILE *f)
{
	std::lock_guard<std::mutex> g(sim_streams_mu);
	std::map<FILE *, std::istream *>::iterator it = sim_streams.find(f);
	if (it != sim_streams.end())
		return it->second;
	std::istream *is = new std::istream(new SimSB(f));
	sim_streams[f] = is;
	return is;
}
static FILE *sim_file_of(std::streambuf *sb)
{
	SimSB *s = dynamic_cast<SimSB *>(sb);
	return s ? s->f : NULL;
}

void *yyalloc(yy_size_t n) { return sim_alloc(n); }
void *yyrealloc(void *p, yy_size_t n) { return sim_realloc(p, n); }
void yyfree(void *p) { sim_free(p); }

FILE *SimLexer::in_file() { return sim_file_of(yyin.rdbuf()); }

#if SIM_USER_INPUT
int SimLexer::LexerInput(char *buf, int max_size)
{
	return sim_read_user(in_file(), buf, (size_t) max_size);
}
#endif

void SimLexer::common_op(const sim_xop *x)
{
	switch (x->code) {
	case SOP_CREATE_BUF:
		sim_buf_created((void *) yy_create_buffer(sim_stream_of(x->f), (int) x->a), x->h, NULL, 0);
		break;
	case SOP_PUSHNEW: {
		yy_buffer_state *b = yy_create_buffer(sim_stream_of(x->f), (int) x->a);
		sim_buf_created((void *) b, x->h, NULL, 2);
		yypush_buffer_state(b);
		break;
	}
	case SOP_SWITCHNEW: {
		yy_buffer_state *b = yy_create_buffer(sim_stream_of(x->f), (int) x->a);
		sim_buf_created((void *) b, x->h, NULL, 1);
		yy_switch_to_buffer(b);
		break;
	}
	case SOP_SWITCH:
		yy_switch_to_buffer((yy_buffer_state *) x->p);
		break;
	case SOP_PUSH_BUF:
		yypush_buffer_state((yy_buffer_state *) x->p);
		break;
	case SOP_POP_BUF:
		yypop_buffer_state();
		break;
	case SOP_FLUSH:
		yy_flush_buffer((yy_buffer_state *) x->p);
		break;
	case SOP_DELETE:
		yy_delete_buffer((yy_buffer_state *) x->p);
		break;
	case SOP_RESTART:
		if (x->f)
			yyrestart(sim_stream_of(x->f));
		else
			yyrestart(yyin);
		break;
	case SOP_SETBOL:
		yysetbol((int) x->a);
		break;
	case SOP_SET_INTERACTIVE:
		yy_set_interactive((int) x->a);
		break;
	case SOP_GET_LINENO:
		sim_res_int("lineno", lineno());
		break;
	case SOP_SET_LINENO:
		yylineno = (int) x->a;
		break;
	case SOP_NOP:
		break;
	default:
		sim_res_int("unhandled-op", x->code);
		break;
	}
}

int SimLexer::yywrap()
{
	sim_xop x;
	int ret = 1;
	sim_sync_current((void *) yy_current_buffer(), in_file());
	switch (sim_wrap_next(&x)) {
	case SOP_STOP:
		ret = 1;
		break;
	case SOP_SET_YYIN:
		/* the analogue of "yyin = f; return 0;" */
		yyin.rdbuf(sim_stream_of(x.f)->rdbuf());
		ret = 0;
		break;
	default:
		common_op(&x);
		ret = 0;
		break;
	}
	sim_wrap_done(ret, yystart());
	return ret;
}

void SimLexer::exec_top(const sim_xop *x)
{
	switch (x->code) {
	case SOP_LEX: {
		long n;
		if (x->f)
			yyin.rdbuf(sim_stream_of(x->f)->rdbuf());
		for (n = 0; n < x->a; n++) {
			int r = yylex();
			I->lexed = 1;
			sim_sync_current((void *) yy_current_buffer(), in_file());
			sim_log_lex(r, yystart(), yylineno);
			if (r == 0)
				break;
		}
		return;
	}
	case SOP_SET_YYIN:
		if (x->a == 2) {
			switch_streams(sim_stream_of(x->f), (std::ostream *) 0);
			sim_buf_replaced((void *) yy_current_buffer(), x->h);
		} else
			yyin.rdbuf(sim_stream_of(x->f)->rdbuf());
		break;
	case SOP_BEGIN:
		yybegin((int) x->a);
		break;
#if SIM_HAS_STACK
	case SOP_PUSH_STATE:
		yy_push_state((int) x->a);
		break;
	case SOP_POP_STATE:
		yy_pop_state();
		break;
	case SOP_TOP_STATE:
		sim_res_int("top", yy_top_state());
		break;
#endif
	case SOP_GET_STATE:
		break;
	default:
		common_op(x);
		break;
	}
	sim_sync_current((void *) yy_current_buffer(), in_file());
	sim_res_state(yystart(), yylineno, yy_current_buffer() ? yyatbol() : -1);
}

static void sim_exec_top(sim_inst *I, const sim_xop *x)
{
	if (x->code == SOP_INIT) {
		I->extra_set = 0;
		I->scanner = (void *) new SimLexer(I);
		I->inited = 1;
		sim_res_int("init", 0);
		return;
	}
	if (x->code == SOP_DESTROY) {
		delete (SimLexer *) I->scanner;
		I->scanner = NULL;
		sim_res_int("destroy", 0);
		return;
	}
	((SimLexer *) I->scanner)->exec_top(x);
}

static const sim_scanner_vt sim_vt = {
	SIM_NAME, 1, SIM_NCONDS, SIM_HAS_LINENO, SIM_HAS_STACK,
	SIM_HAS_REJECT, SIM_HAS_YYMORE, SIM_BOL_NEEDED, 0,
	SIM_DEFAULT_RULE, 0, sim_exec_top, 1
};
__attribute__((constructor)) static void sim_register_me(void)
{
	sim_register(&sim_vt);
}

#else  /* C flavours */

#if SIM_FLAVOR == SIM_NR
#define SIM_DECL_YYG
#define SIM_DECL_SC(I)
#define SIM_TOP_LINENO() yylineno
#define SIM_SETIN(f) yyset_in(f)
#define SIM_GETIN() yyget_in()
#elif SIM_FLAVOR == SIM_R
#define SIM_DECL_YYG struct yyguts_t *yyg = (struct yyguts_t *) yyscanner; (void) yyg;
#define SIM_DECL_SC(I) yyscan_t yyscanner = (I)->scanner; SIM_DECL_YYG
#define SIM_TOP_LINENO() (yy_current_buffer() ? yyget_lineno(yyscanner) : -1)
#define SIM_SETIN(f) yyset_in((f), yyscanner)
#define SIM_GETIN() yyget_in(yyscanner)
#elif SIM_FLAVOR == SIM_C99
#define SIM_DECL_YYG
#define SIM_DECL_SC(I) yyscan_t yyscanner = (yyscan_t) (I)->scanner;
#define SIM_TOP_LINENO() (yy_current_buffer(yyscanner) ? yyget_lineno(yyscanner) : -1)
#define SIM_SETIN(f) yyset_in((f), yyscanner)
#define SIM_GETIN() yyget_in(yyscanner)
#endif

/* ---- user-supplied routines ---- */
#if SIM_FLAVOR == SIM_C99
#define SIM_EXTRA_OF(s) ((s) ? (void *) yyget_extra(s) : NULL)
void *yyalloc(size_t n, yyscan_t yyscanner) { void *p = sim_alloc(n); sim_check_extra(SIM_EXTRA_OF(yyscanner), yyscanner != NULL); return p; }
void *yyrealloc(void *p, size_t n, yyscan_t yyscanner) { void *q = sim_realloc(p, n); sim_check_extra(SIM_EXTRA_OF(yyscanner), yyscanner != NULL); return q; }
void yyfree(void *p, yyscan_t yyscanner) { sim_check_extra(SIM_EXTRA_OF(yyscanner), yyscanner != NULL); sim_free(p); }
#elif SIM_FLAVOR == SIM_R
#define SIM_EXTRA_OF(s) ((s) ? (void *) yyget_extra(s) : NULL)
void *yyalloc(yy_size_t n, yyscan_t yyscanner) { void *p = sim_alloc(n); sim_check_extra(SIM_EXTRA_OF(yyscanner), yyscanner != NULL); return p; }
void *yyrealloc(void *p, yy_size_t n, yyscan_t yyscanner) { void *q = sim_realloc(p, n); sim_check_extra(SIM_EXTRA_OF(yyscanner), yyscanner != NULL); return q; }
void yyfree(void *p, yyscan_t yyscanner) { sim_check_extra(SIM_EXTRA_OF(yyscanner), yyscanner != NULL); sim_free(p); }
#else
void *yyalloc(yy_size_t n) { return sim_alloc(n); }
void *yyrealloc(void *p, yy_size_t n) { return sim_realloc(p, n); }
void yyfree(void *p) { sim_free(p); }
#endif

#if SIM_FLAVOR == SIM_C99
void yypanic(const char *msg, yyscan_t yyscanner) { (void) yyscanner; sim_fatal(msg); }
#if SIM_USER_INPUT
int yyread(char *buf, size_t max_size, yyscan_t yyscanner) { return sim_read_user(yyget_in(yyscanner), buf, max_size); }
#endif
#endif

/* ops that may be executed at top level, inside actions and inside yywrap */
static void sim_common_op(const sim_xop *x SC_DECL__)
{
	SIM_DECL_YYG
	switch (x->code) {
	case SOP_CREATE_BUF:
		sim_buf_created((void *) yy_create_buffer(x->f, (int) x->a SC__), x->h, NULL, 0);
		break;
	case SOP_PUSHNEW: {
		void *b = (void *) yy_create_buffer(x->f, (int) x->a SC__);
		sim_buf_created(b, x->h, NULL, 2);
		yypush_buffer_state((yybuffer) b SC__);
		break;
	}
	case SOP_SWITCHNEW: {
		void *b = (void *) yy_create_buffer(x->f, (int) x->a SC__);
		sim_buf_created(b, x->h, NULL, 1);
		yy_switch_to_buffer((yybuffer) b SC__);
		break;
	}
	case SOP_SWITCH:
		yy_switch_to_buffer((yybuffer) x->p SC__);
		break;
	case SOP_PUSH_BUF:
		yypush_buffer_state((yybuffer) x->p SC__);
		break;
	case SOP_POP_BUF:
		yypop_buffer_state(SC_);
		break;
	case SOP_FLUSH:
		yy_flush_buffer((yybuffer) x->p SC__);
		break;
	case SOP_DELETE:
		yy_delete_buffer((yybuffer) x->p SC__);
		break;
	case SOP_SCAN_BYTES: {
		/* the caller's array is scribbled over and freed right after the
		 * call: the scanner must work on a private copy */
		char *tmp = (char *) malloc((size_t) x->len + 1);
		void *b;
		memcpy(tmp, x->data, (size_t) x->len);
		tmp[x->len] = 'Z';
		b = (void *) yy_scan_bytes(tmp, x->len SC__);
		memset(tmp, 0x5a, (size_t) x->len + 1);
		free(tmp);
		sim_buf_created(b, -1, NULL, 1);
		if (b)
			sim_buf_memlen((int) x->len);
		break;
	}
	case SOP_SCAN_STRING: {
		char *tmp = (char *) malloc((size_t) x->len + 1);
		void *b;
		memcpy(tmp, x->data, (size_t) x->len);
		tmp[x->len] = 0;
		b = (void *) yy_scan_string(tmp SC__);
		memset(tmp, 0x5a, (size_t) x->len + 1);
		free(tmp);
		sim_buf_created(b, -1, NULL, 1);
		if (b)
			sim_buf_memlen((int) x->len);
		break;
	}
	case SOP_SCAN_BUFFER: {
		/* a: 0 = well-formed (two trailing NULs); 1 = last byte not NUL;
		 * 2 = second-to-last byte not NUL; 3 = size 1 */
		size_t sz = (size_t) x->len + 2;
		char *mem = (char *) malloc(sz);
		void *b;
		memcpy(mem, x->data, (size_t) x->len);
		mem[x->len] = 0;
		mem[x->len + 1] = 0;
		if (x->a == 1)
			mem[x->len + 1] = 'x';
		else if (x->a == 2)
			mem[x->len] = 'x';
		else if (x->a == 3)
			sz = 1;
		b = (void *) yy_scan_buffer(mem, sz SC__);
		sim_res_int("scanbuf", b != NULL);
		sim_buf_created(b, -1, mem, 1);
		break;
	}
	case SOP_RESTART:
		yyrestart(x->f ? x->f : SIM_GETIN() SC__);
		break;
	case SOP_SETBOL:
		SIM_SETBOL((int) x->a);
		break;
	case SOP_SET_INTERACTIVE:
		SIM_SETINTERACTIVE((int) x->a);
		break;
	case SOP_GET_LINENO:
		sim_res_int("lineno", yyget_lineno(SC_));
		break;
	case SOP_SET_LINENO:
		yyset_lineno((int) x->a SC__);
		break;
	case SOP_NOP:
		break;
	default:
		sim_res_int("unhandled-op", x->code);
		break;
	}
}

/* yywrap: the plan decides */
int yywrap(SC_DECL_)
{
	sim_xop x;
	int ret = 1;
	SIM_DECL_YYG
	/* a buffer created implicitly by yylex() may not be known yet */
	sim_sync_current(SIM_CURBUF(), SIM_GETIN());
	switch (sim_wrap_next(&x)) {
	case SOP_STOP:
		ret = 1;
		break;
	case SOP_SET_YYIN:
		SIM_SETIN(x.f);
		ret = 0;
		break;
	default:
		sim_common_op(&x SC__);
		ret = 0;
		break;
	}
	sim_wrap_done(ret, SIM_YYSTART());
	return ret;
}

#if SIM_HAS_TABLES
extern FILE *sim_tables_file(const sim_xop *x);
#endif

static void sim_exec_top(sim_inst *I, const sim_xop *x)
{
#if SIM_FLAVOR == SIM_NR
	(void) I;
#else
	SIM_DECL_SC(I)
#endif
	switch (x->code) {
	case SOP_INIT:
#if SIM_FLAVOR != SIM_NR
	{
		yyscan_t s = NULL;
		int r;
		errno = 0;
		if (x->a & 1) {
			/* the instance itself is the user-defined value: the allocator
			 * must be handed it back, and nobody else's */
			I->extra_set = 1;
#if SIM_FLAVOR == SIM_C99
			r = yylex_init_extra((void *) I, &s);
#else
			r = yylex_init_extra((YY_EXTRA_TYPE) I, &s);
#endif
		} else {
			I->extra_set = 0;
			r = yylex_init(&s);
		}
		sim_res_int("init", r);
		if (r == 0) {
			I->scanner = (void *) s;
			I->inited = 1;
#if SIM_FLAVOR == SIM_C99
			yyset_out(sim_devnull, s);
#endif
		} else
			sim_res_int("errno", errno);
		return;
	}
#else
		I->inited = 1;
		return;
#endif
	case SOP_LEX: {
		long n;
		if (x->f)
			SIM_SETIN(x->f);
		for (n = 0; n < x->a; n++) {
			int r = yylex(SC_);
			I->lexed = 1;
			sim_sync_current(SIM_CURBUF(), SIM_GETIN());
			sim_log_lex(r, SIM_YYSTART(), SIM_TOP_LINENO());
			if (r == 0)
				break;
		}
		return;
	}
	case SOP_DESTROY:
		sim_res_int("destroy", yylex_destroy(SC_));
#if SIM_FLAVOR != SIM_NR
		I->scanner = NULL;
#endif
		return;
	case SOP_SET_YYIN:
		SIM_SETIN(x->f);
		break;
	case SOP_BEGIN:
		SIM_YYBEGIN((int) x->a);
		break;
#if SIM_HAS_STACK
	case SOP_PUSH_STATE:
		yy_push_state((int) x->a SC__);
		break;
	case SOP_POP_STATE:
		yy_pop_state(SC_);
		break;
	case SOP_TOP_STATE:
		sim_res_int("top", yy_top_state(SC_));
		break;
#endif
	case SOP_GET_STATE:
		break;
#if SIM_HAS_TABLES
	case SOP_TABLES_LOAD: {
		FILE *tf = sim_tables_file(x);
		int r;
		I->tables_loaded = 2;     /* partially loaded until proven complete */
		r = yytables_fload(tf SC__);
		fclose(tf);
		sim_res_int("fload", r);
		if (r == 0)
			I->tables_loaded = 1;
		return;
	}
	case SOP_TABLES_DESTROY:
		sim_res_int("tdestroy", yytables_destroy(SC_));
		I->tables_loaded = 0;
		return;
#endif
	default:
		sim_common_op(x SC__);
		break;
	}
	sim_sync_current(SIM_CURBUF(), SIM_GETIN());
	sim_res_state(SIM_YYSTART(), SIM_TOP_LINENO(), SIM_CURBUF() ? SIM_ATBOL() : -1);
}

static const sim_scanner_vt sim_vt = {
	SIM_NAME, SIM_FLAVOR != SIM_NR, SIM_NCONDS, SIM_HAS_LINENO, SIM_HAS_STACK,
	SIM_HAS_REJECT, SIM_HAS_YYMORE, SIM_BOL_NEEDED, SIM_TEXT_IS_ARRAY,
	SIM_DEFAULT_RULE, SIM_HAS_TABLES, sim_exec_top
};
__attribute__((constructor)) static void sim_register_me(void)
{
	sim_register(&sim_vt);
}

#endif /* C flavours */

"""C03 - tokens independent of input delivery; interactive scanners do not over-read."""
import collections
import copy

from simlib import common, scenario, workload, model
from simlib.engine import Case, Finding, WorkResult
from simlib.plan import Plan, Source, Op, gen_input, gen_sched
from . import streambase as sb

ID = 'C03'
LEVEL = 'exploration'
RULE = ('seeded scenarios x seeded inputs x a family of deliveries of the same bytes: source kind (user input routine, stdio fread through a '
        'simulated FILE*, stdio interactive getc path, read(2) of %option read, yy_scan_bytes, yy_scan_string, yy_scan_buffer) x buffer size (1..9, 15-17, 63, 16384) x '
        'read-size schedule (all at once, one byte, random, and the boundary sweep [p,1,1,..] / [p,inf] for every offset p of the input). '
        'Oracle 1 (differential): action log (rule, yytext, yyleng, yystart, yylineno) and yylex return values equal those of the baseline '
        'delivery (whole input in one in-memory buffer). Oracle 2: an interactive-mode scanner fed one byte per request issues no request '
        'once the reference matcher says no longer match is possible. distinct = event-log hash, non-trivial = >= 2 tokens and >= 2 reads')
TIERS = {
    'quick': {'scenarios': 32, 'inputs': 6, 'wall_cap': 600},
    'thorough': {'scenarios': 1400, 'inputs': 12, 'wall_cap': 3300},
}
COMPONENTS = sb.COMPONENTS
ASSUMPTIONS = ['REJECT scanners and user-owned yy_scan_buffer buffers may stop with the documented fatal error when the token does not fit (legitimacy bound of DESIGN 5.4)',
               'the read(2) input path (-Cr) is not driven: the simulated streams have no file descriptor']
EXPECTED_PROBES = ['refill-with-partial-token', 'token-longer-than-buffer', 'eof-with-pending-text', 'legit-reject-overflow']
CLASSES = {'delivery', 'delivery-abort', 'overread', 'overread-after-nul', 'fatal', 'hang', 'premature'}
BUF_SIZES = [1, 2, 3, 4, 5, 6, 7, 8, 9, 15, 16, 17, 63, 16384]


def gen_scn(rng, idx=0):
    tables = scenario.TABLE_OPTS[idx % len(scenario.TABLE_OPTS)]
    sc = scenario.gen_scenario(rng, forbid=('vtrail',), want={'flavors': ['nr', 'nr', 'r', 'r', 'c99', 'c99'], 'tables': tables})
    sc.buf_size = None
    return sc


def base_plan(p):
    """the baseline delivery of the same bytes: one in-memory buffer"""
    q = p.copy()
    data = q.sources[0].data
    it = q.insts[0]
    top = []
    for op in it.top:
        if op.name in ('SWITCHNEW', 'SET_INTERACTIVE', 'SCAN_BYTES', 'SCAN_STRING', 'SCAN_BUFFER'):
            continue
        if op.name == 'LEX' and not any(o.name == 'SCAN_BYTES' for o in top):
            top.append(Op('SCAN_BYTES', d=data))
        top.append(op)
    it.top = top
    return q


def delivery_plan(rng, sc, data, acts, kind, size, sched, begin):
    p = Plan()
    p.junk_seed = rng.randint(1, 1 << 30)
    p.junk_pat = rng.choice([0, 1, 2, 3, 4])
    it = p.insts[0]
    it.top.append(Op('INIT'))
    if begin:
        it.top.append(Op('BEGIN', a=begin))
    if kind in ('user', 'fread', 'getc', 'read'):
        p.sources = [Source(data, sched, kind='user' if kind == 'user' else 'stdio')]
        it.top.append(Op('SWITCHNEW', a=size))
        if kind == 'getc':
            it.top.append(Op('SET_INTERACTIVE', a=1))
    else:
        p.sources = [Source(data, [1 << 20])]   # kept so that base_plan finds the bytes
        if kind == 'bytes':
            it.top.append(Op('SCAN_BYTES', d=data))
        elif kind == 'string':
            it.top.append(Op('SCAN_STRING', d=data))
        else:
            it.top.append(Op('SCAN_BUFFER', d=data))
    it.top.append(Op('LEX', a=100000))
    it.top.append(Op('DESTROY'))
    it.acts = list(acts)
    return p


def tokens_of(res):
    out = []
    for ev in res.events:
        k = ev['k']
        if k == 'T':
            out.append(('T', ev['rule'], ev.get('text'), ev['len'], ev['start'], ev['lineno']))
        elif k == 'E':
            out.append(('E', ev['rule'], ev['start']))
        elif k == 'L':
            out.append(('L', ev['ret'], ev['start']))
        elif k == 'V' and ('input' in ev or 'less' in ev.get('flags', [])):
            out.append(('V', ev.get('input'), ev.get('text')))
    return out


def compare(sc, plan, rb, rv):
    """returns list of Viol"""
    viols = []
    mv, vv = sb.judge_run(sc, plan, rv, use_matcher=False)
    for v in vv:
        if v.cls in ('fatal', 'hang'):
            viols.append(v)
    tb = tokens_of(rb)
    tv = tokens_of(rv)
    if mv.dead and mv.fatal is not None:
        # stopped with a fatal error judged above: what was delivered before must agree
        n = len(tv)
        if tv != tb[:n]:
            i = next(i for i in range(n) if i >= len(tb) or tv[i] != tb[i])
            viols.append(model.Viol('delivery', -1, 'before the fatal error: item %d is %s, baseline delivery gives %s' % (i, tv[i], tb[i] if i < len(tb) else None)))
        return viols, mv
    if sb.status_class(rb):
        return viols, mv    # the baseline itself ended abnormally: C13's business
    if sb.status_class(rv) in ('sanitizer', 'crash'):
        # the same bytes scanned from one in-memory buffer gave a complete token stream; under this
        # delivery the scanner did not get through (whatever else it is, the stream depends on the delivery)
        n = len(tv)
        i = next((i for i in range(n) if i >= len(tb) or tv[i] != tb[i]), n)
        viols.append(model.Viol('delivery-abort', -1, 'this delivery ended with %s after %d items (first difference at item %d); the baseline (one in-memory buffer) completed with %d items: %s' % (
            rv.status, n, i, len(tb), sb.san_summary(rv.stderr)[:200] if sb.status_class(rv) == 'sanitizer' else ''))) 
        return viols, mv
    if sb.status_class(rv):
        return viols, mv
    if any(ev['k'] == 'F' for ev in rb.events):
        # the baseline itself stopped (e.g. push-back into an exactly-sized
        # in-memory buffer): only the common prefix is comparable
        n = len(tb)
        if tv[:n] != tb:
            viols.append(model.Viol('delivery', -1, 'prefix before the baseline stopped differs'))
        return viols, mv
    if tv != tb:
        n = min(len(tv), len(tb))
        i = next((i for i in range(n) if tv[i] != tb[i]), n)
        viols.append(model.Viol('delivery', -1, 'item %d differs: this delivery gives %s, baseline (one in-memory buffer) gives %s' % (
            i, tv[i] if i < len(tv) else None, tb[i] if i < len(tb) else None)))
    return viols, mv


def overread_check(sc, plan, rv):
    m = model.Model(sc, plan, use_matcher=True)
    m.check_overread = True
    m.run(rv.events)
    out = []
    for v in m.viol:
        if v.cls == 'overread':
            if 'last examined byte 00' in v.detail:
                v = model.Viol('overread-after-nul', v.seq, v.detail)
            out.append(v)
        elif v.cls == 'premature':
            out.append(v)
    return out, m


def exe_for(ctx, sc, kind):
    if kind in ('fread', 'getc', 'read'):
        sc2 = copy.copy(sc)
        sc2._matchers = {}
        sc2.user_input = False
        sc2.use_read = (kind == 'read')     # %option read: yyread() is read(fileno(yyin), ...)
        return ctx.build(sc2), sc2
    return ctx.build(sc), sc


def work(ctx, idx):
    wr = WorkResult()
    cfg = TIERS[ctx.tier]
    rng = ctx.rng('scn', idx)
    sc = gen_scn(rng, idx)
    b = ctx.build(sc)
    if not b.ok:
        if b.stage == 'flex':
            wr.refused += 1
        else:
            wr.unbuildable += 1
            wr.notes.append('scn %d unbuildable (%s): %s' % (idx, b.stage, b.msg.strip()[:200]))
        return wr
    bs, sc_s = exe_for(ctx, sc, 'fread')
    br, sc_r = exe_for(ctx, sc, 'read')
    wr.scenarios = 1
    wr.stats['back-end:' + sc.flavor] += 1
    per_class = collections.Counter()
    hangs = 0
    for ii in range(cfg['inputs']):
        if hangs >= 3:
            wr.notes.append('scn %d: abandoned after %d runs ended by the wall-clock backstop' % (idx, hangs))
            break
        irng = ctx.rng('scn', idx, 'in', ii)
        # (big inputs only where scanning is linear: with trailing context every token may look ahead to the end
        # of the input, and 40 000 tokens times 40 000 bytes of look-ahead is a legitimately slow run, not a hang)
        big = irng.random() < 0.08 and not sc.has_trailing()
        ln = irng.randint(20000, 70000) if big else irng.randint(1, 40)
        alpha = sc.alphabet
        data = gen_input(irng, alpha, ln, stray=irng.choice([0, 0.03]))
        acts = workload.text_ops(irng, sc, irng.choice([0, 0, 0.15]), ['LESS', 'MORE', 'BEGIN', 'RETURN', 'INPUT']) if not big else []
        begin = irng.randint(0, sc.nconds() - 1) if sc.nconds() > 1 and irng.random() < 0.5 else 0
        # family of deliveries
        dels = []
        if big:
            # (read sizes scaled up: with a rule that matches the whole input the
            # scanner moves the pending token on every refill, and tens of
            # thousands of one-byte reads would run into the wall-clock backstop,
            # the only thing in a run that is not a function of the seed)
            big_sched = lambda: [min(c * 128, 1 << 20) for c in gen_sched(irng)]
            for _ in range(6):
                dels.append(('user', irng.choice(BUF_SIZES), big_sched()))
            dels.append(('fread', 16384, [1 << 20]))
            dels.append(('fread', irng.choice(BUF_SIZES), big_sched()))
            dels.append(('read', irng.choice(BUF_SIZES), big_sched()))
        else:
            for p in range(1, len(data) + 1):
                dels.append(('user', irng.choice(BUF_SIZES), [p, 1]))
                dels.append(('user', irng.choice(BUF_SIZES), [p, 1 << 20]))
            for _ in range(8):
                dels.append(('user', irng.choice(BUF_SIZES), gen_sched(irng)))
            for bsz in (1, 2, 3, 16384):
                dels.append(('user', bsz, [1]))
            dels.append(('fread', irng.choice(BUF_SIZES), [1 << 20]))
            dels.append(('fread', irng.choice(BUF_SIZES), gen_sched(irng)))
            dels.append(('getc', irng.choice(BUF_SIZES), [1]))
            dels.append(('read', irng.choice(BUF_SIZES), [1 << 20]))
            dels.append(('read', irng.choice(BUF_SIZES), gen_sched(irng)))
            dels.append(('read', irng.choice(BUF_SIZES), [1]))
            dels.append(('bytes', 0, None))
            dels.append(('buffer', 0, None))
            if 0 not in data:
                dels.append(('string', 0, None))
        plans_u, plans_s, plans_r = [], [], []
        for di, (kind, size, sched) in enumerate(dels):
            p = delivery_plan(irng, sc, data, acts, kind, size, sched, begin)
            (plans_r if kind == 'read' else plans_s if kind in ('fread', 'getc') else plans_u).append(('i%dd%d' % (ii, di), p, kind))
        basep = base_plan(plans_u[0][1])
        runs_u = common.run_batch(b.exe, [('base', basep.text())] + [(k, p.text()) for k, p, _ in plans_u]) if b.ok else {}
        runs_s = common.run_batch(bs.exe, [(k, p.text()) for k, p, _ in plans_s]) if bs.ok and plans_s else {}
        runs_s.update(common.run_batch(br.exe, [(k, p.text()) for k, p, _ in plans_r]) if br.ok and plans_r else {})
        plans_s = plans_s + plans_r
        # a scanner that loops costs the wall-clock backstop per run: three such runs settle the scenario
        hangs += sum(1 for r in list(runs_u.values()) + list(runs_s.values()) if r.status == 'signal=14')
        rb = runs_u.get('base')
        if rb is None:
            if hangs >= 3:
                break
            continue
        for k, p, kind in plans_u + plans_s:
            rv = runs_u.get(k) or runs_s.get(k)
            if rv is None:
                continue
            wr.evaluations += 1
            h = rv.loghash()
            wr.hashes.add(h)
            scx = sc_r if kind == 'read' else sc_s if kind in ('fread', 'getc') else sc
            viols, mv = compare(scx, p, rb, rv)
            if mv.ntok >= 2 and mv.reads >= 2:
                wr.nontrivial.add(h)
            sb.run_stats(rv, p, wr.stats)
            wr.stats['delivery-kind:' + kind] += 1
            for sk, sv in mv.stats.items():
                if sk in sb.PROBE_STATS or sk.startswith('fatal:'):
                    wr.stats['probe:' + sk] += sv
            # oracle 2
            if kind == 'user' and sc.is_interactive_mode() and sc.model_safe() and p.sources[0].sched == [1]:
                ov, mo = overread_check(sc, p, rv)
                viols.extend(ov)
                wr.stats['overread-checked-tokens'] += mo.ntok
            if len(wr.samples) < 1 and mv.ntok >= 3 and kind == 'user':
                wr.samples.append({'scenario': idx, 'flex_args': sc.flex_args(), 'delivery': [kind, p.sources[0].sched[:6]],
                                   'plan_text': p.text().split('\n')[:10], 'log_excerpt': rv.raw[:10]})
            seen = set()
            for v in viols:
                if v.cls in seen or v.cls not in CLASSES:
                    continue
                seen.add(v.cls)
                if per_class[v.cls] >= 2:
                    continue
                per_class[v.cls] += 1
                case = Case(ID, scx, p, meta={'scn': idx, 'kind': kind})
                wr.findings.append(Finding(v.cls, v.detail, case, v.seq, 'scn %d %s' % (idx, k)))
    return wr


def evaluate(ctx, case):
    sc = case.scs['main']
    b = ctx.build(sc)
    if not b.ok:
        return [], {}
    p = case.plan
    if not p.sources:
        return [], {}
    # the baseline always runs on the user-input build of the same scenario
    scb = copy.copy(sc)
    scb._matchers = {}
    scb.user_input = True
    bb = ctx.build(scb)
    if not bb.ok:
        return [], {}
    rb = common.run_one(bb.exe, base_plan(p).text(), timeout=ctx.run_timeout)
    rv = common.run_one(b.exe, p.text(), timeout=ctx.run_timeout)
    viols, mv = compare(sc, p, rb, rv)
    if case.meta.get('kind') == 'user' and sc.is_interactive_mode() and sc.model_safe() and p.sources[0].sched == [1]:
        ov, _ = overread_check(sc, p, rv)
        viols.extend(ov)
    return [v for v in viols if v.cls in CLASSES], {'base': rb, 'var': rv}


def features(ctx, case, cls, detail):
    f = {}
    if cls.startswith('overread'):
        f['requests_extra'] = 1 if ' 1 request(s)' in detail else 2
    return f

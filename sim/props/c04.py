"""C04 - NUL and 8-bit bytes are ordinary input characters."""
import collections
import copy

from simlib import common, scenario, workload, model, rx
from simlib.engine import Case, Finding, WorkResult
from simlib.plan import Plan, Source, Op, gen_input, gen_sched
from . import streambase as sb

ID = 'C04'
LEVEL = 'exploration'
RULE = ('relabelling equivariance: for a seeded scenario S and a byte permutation pi that swaps NUL (or a byte >= 0x80) with an ordinary '
        'byte and fixes newline, the twin scenario pi(S) is built too; every plan x is run on S and pi(x) on pi(S) - same read schedule, '
        'buffer size, in-action ops (yyunput argument and pushed-back / scanned bytes mapped through pi) - and the two event logs must be '
        'equal modulo pi.  Plans include the refill-boundary sweep [p,1,1..] / [p,inf] for every offset p, buffer sizes 1..16384, NUL-heavy '
        'inputs, yyunput(0), yyinput over NULs, yyless/yymore around NULs, all table modes, interactive and batch, with and without REJECT. '
        'Second oracle: a rule set that needs only 7-bit characters gives equal logs when built with -7 and with -8 on 7-bit input, and flex '
        'exits non-zero for an 8-bit pattern under -7.  distinct = event-log hash, non-trivial = >= 2 tokens and the swapped byte occurs in the input')
TIERS = {
    'quick': {'scenarios': 128, 'inputs': 6, 'wall_cap': 600},
    'thorough': {'scenarios': 3000, 'inputs': 10, 'wall_cap': 3300},
}
COMPONENTS = sb.COMPONENTS
ASSUMPTIONS = ['immune to tokenisation bugs by construction: both twins run the same generator code paths except where a byte value is special to the scanner',
               'yyinput() returning 0 for both NUL and end of input (C API) is accepted when both twins return 0']
EXPECTED_PROBES = ['refill-with-partial-token', 'token-contains-nul', 'input-nul']
CLASSES = {'twin', 'sevenbit', 'sevenbit-not-refused', 'hang'}
BUF_SIZES = [1, 2, 3, 4, 5, 8, 9, 16, 17, 63, 16384]


def perm_bytes(data, perm):
    return bytes(perm.get(b, b) for b in data)


def relabel_plan(p, perm):
    q = p.copy()
    for s in q.sources:
        s.data = perm_bytes(s.data, perm)
    for it in q.insts:
        for op in it.top:
            if op.d is not None:
                op.d = perm_bytes(op.d, perm)
        for o, op in it.acts:
            if op.name == 'UNPUT':
                op.a = perm.get(op.a & 0xff, op.a & 0xff)
            if op.d is not None:
                op.d = perm_bytes(op.d, perm)
    return q


def obs(res, perm=None):
    out = []
    for ev in res.events:
        k = ev['k']
        if k == 'T':
            t = ev.get('text')
            raw = common.unhex(t)
            if raw is not None and perm:
                t = common.hexs(perm_bytes(raw, perm))
            elif raw is None:
                t = 'len%d' % ev['len']    # abbreviated long token: compare length only
            out.append(('T', ev['rule'], t, ev['len'], ev['start'], ev['lineno'], ev.get('bol')))
        elif k == 'E':
            out.append(('E', ev['rule'], ev['start']))
        elif k == 'L':
            out.append(('L', ev['ret'], ev['start'], ev.get('lineno')))
        elif k == 'F':
            out.append(('F', ev.get('msg')))
        elif k == 'V':
            if 'input' in ev:
                v = ev['input']
                out.append(('I', perm.get(v, v) if perm and v != 0 else (v if not perm else 'zero')))
            elif 'less' in ev.get('flags', []):
                raw = common.unhex(ev.get('text'))
                t = common.hexs(perm_bytes(raw, perm)) if (raw is not None and perm) else ev.get('text')
                out.append(('Y', ev.get('len'), t))
            elif 'st' in ev.get('flags', []):
                out.append(('S', ev.get('start'), ev.get('lineno'), ev.get('bol')))
        elif k == 'W':
            out.append(('W', ev.get('op')))
    return out


def compare_twins(ra, rb, perm):
    """ra: run of S on x; rb: run of pi(S) on pi(x)"""
    if sb.status_class(ra) or sb.status_class(rb):
        if sb.status_class(ra) != sb.status_class(rb):
            return [model.Viol('twin', -1, 'one twin ended with %s, the other with %s' % (ra.status, rb.status))]
        return []
    a = obs(ra, perm)
    b = obs(rb, None)
    # capacity errors depend on how full the buffer is, which the extra read
    # request after a NUL (C03 finding) can shift: compare what precedes them
    cap = ('flex scanner push-back overflow', "input buffer overflow, can't enlarge buffer because scanner uses yyreject()")
    cut = [i for i, x in enumerate(a) if x[0] == 'F' and x[1] in cap] + [i for i, x in enumerate(b) if x[0] == 'F' and x[1] in cap]
    if cut:
        a, b = a[:min(cut)], b[:min(cut)]
    # yyinput: 0 in the original (NUL or end) maps to 'zero'; in the twin 0 is NUL or end as well
    def norm(x, twin):
        if x[0] != 'I':
            return x
        return x
    qv = [perm.get(0, 0)]
    n = min(len(a), len(b))
    for i in range(n):
        x, y = a[i], b[i]
        if x == y:
            continue
        if x[0] == 'I' and y[0] == 'I':
            # original returned 0: either a real NUL (twin then returns pi(0)) or the end (twin returns 0)
            if x[1] == 'zero' and y[1] in (0, qv[0]):
                continue
            if x[1] == y[1]:
                continue
        return [model.Viol('twin', ra.events[0].get('seq', -1), 'item %d differs modulo the relabelling: original %s, twin %s' % (i, x, y))]
    if len(a) != len(b):
        return [model.Viol('twin', -1, 'logs have different lengths (%d, %d): first extra item %s' % (len(a), len(b), (a + b)[n] if len(a) > n else b[n]))]
    return []


def char_sets(n, acc):
    k = n[0]
    if k == 'lit':
        for b in n[1]:
            acc.add(frozenset([b]))
    elif k == 'cls':
        acc.add(n[1])
    elif k in ('cat', 'alt'):
        for x in n[1]:
            char_sets(x, acc)
    elif k == 'rep':
        char_sets(n[1], acc)


def count_ecs(sc):
    """number of equivalence classes flex will form: bytes are equivalent when no literal and no class of any
    pattern tells them apart (the partition is what matters, so this cannot drift far from flex's; it only steers
    the generator)"""
    sets = set()
    for r in sc.rules:
        if r.is_eof:
            continue
        char_sets(r.pat, sets)
        if r.trail is not None:
            char_sets(r.trail, sets)
        if r.eol:
            sets.add(frozenset([10]))
    sets = list(sets)
    return len({tuple(b in s for s in sets) for b in range(256)})


def gen_scn(rng, idx=0):
    feats = ['nul'] if rng.random() < 0.7 else ['high']
    # table representations are stratified over the scenario index: each one is visited
    tables = scenario.TABLE_OPTS[idx % len(scenario.TABLE_OPTS)]
    full_ecs = tables in ('-Cfe', '-Cfae')
    if 'e' in (tables or '-Cem') and rng.random() < (0.5 if full_ecs else 0.4):
        # "binary run" family: no rule names NUL or an 8-bit byte, one rule takes the 7-bit rest and one takes runs
        # of everything else - with equivalence classes NUL then shares a class (the last one) with 0x80-0xff
        sc = scenario.gen_scenario(rng, want={'flavors': ['nr', 'nr', 'r', 'r', 'c99', 'c99', 'cxx', 'cxx'], 'tables': tables},
                                   forbid=('vtrail', 'nul', 'high', 'neg', 'wide', 'sdot', 'catchall'))
        sc.buf_size = None
        sc.rules.append(scenario.Rule(pat=rx.cls(frozenset(range(1, 128))), conds=[]))
        if rng.random() < 0.5:
            sc.rules.append(scenario.Rule(pat=rx.plus(rx.cls(frozenset([0]) | frozenset(range(128, 256)))), conds=[]))
        else:
            # NUL alone in its class, which flex numbers last
            sc.rules.append(scenario.Rule(pat=rx.plus(rx.cls(frozenset(range(128, 256)))), conds=[]))
            sc.rules.append(scenario.Rule(pat=rx.lit(b'\0'), conds=[]))
        if full_ecs:
            # full tables with equivalence classes keep NUL's transitions in a table of their own exactly when
            # NUL's class is the last one and the number of classes is a power of two: steer half of these
            # scenarios there by telling a few more letters apart
            spare = [b for b in b'ghjkmnpqrstuvw' if b not in sc.alphabet]
            for _ in range(8):
                n = count_ecs(sc)
                if n & (n - 1) == 0 or not spare or rng.random() < 0.1:
                    break
                sc.rules.insert(0, scenario.Rule(pat=rx.lit(bytes([spare.pop()])), conds=[]))
        if sc.flavor == 'c99' and sc.c99_catchall:
            # the catch-all of the c99 flavour stays the last rule
            ca = [r for r in sc.rules if r.pat is not None and r.pat == rx.cls(rx.ALL)]
            for r in ca[:1]:
                sc.rules.remove(r)
                sc.rules.append(r)
        sc.alphabet = list(sc.alphabet) + [0, 0x80, 0xfe]
        return sc
    sc = scenario.gen_scenario(rng, want={'feats': tuple(feats), 'flavors': ['nr', 'nr', 'r', 'r', 'c99', 'c99', 'cxx', 'cxx'], 'tables': tables}, forbid=('vtrail',))
    sc.buf_size = None
    # matches that END on the special byte, with a longer rule that continues after it: the scanner must
    # remember the position after the NUL as its back-up point
    special = 0 if 0 in sc.alphabet else max(sc.alphabet)
    plain = [b for b in sc.alphabet if b != special and b != 10] or [97]
    if rng.random() < 0.6:
        for _ in range(rng.randint(1, 3)):
            x = bytes(rng.choice(plain) for _ in range(rng.randint(1, 2)))
            y = bytes(rng.choice(plain) for _ in range(rng.randint(1, 3)))
            conds = []
            sc.rules.insert(0, scenario.Rule(pat=rx.lit(x + bytes([special]) + y), conds=conds))
            sc.rules.insert(0, scenario.Rule(pat=rx.lit(x + bytes([special])), conds=conds))
    if 'e' in (tables or '-Cem') and rng.random() < 0.5:
        # equivalence classes: a run of bytes that no other rule distinguishes - NUL then shares its
        # class with every byte the rule set does not mention (and tokens hold several bytes of that class)
        rest = rx.ALL - frozenset(b for b in sc.alphabet if b != 0)
        sc.rules.append(scenario.Rule(pat=rx.plus(rx.cls(rest)), conds=[]))
    return sc


def choose_perm(rng, sc):
    special = 0 if 0 in sc.alphabet or rng.random() < 0.6 else rng.choice([b for b in sc.alphabet if b >= 0x80] or [0])
    cands = [b for b in list(b'qwrtpsghjkl') if b not in sc.alphabet] or [0x71]
    q = rng.choice(cands)
    return {special: q, q: special}


def gen_plans(rng, sc, cfg):
    plans = []
    for ii in range(cfg['inputs']):
        ln = rng.randint(1, 30)
        alpha = list(sc.alphabet) + [0, 0, 0]
        data = gen_input(rng, alpha, ln, stray=rng.choice([0, 0.05]))
        acts = workload.text_ops(rng, sc, rng.choice([0, 0.2, 0.4]), ['LESS', 'MORE', 'INPUT', 'UNPUT', 'REJECT', 'BEGIN'])
        acts = [(o, Op('UNPUT', a=0) if op.name == 'UNPUT' and rng.random() < 0.5 else op) for o, op in acts]
        begin = rng.randint(0, sc.nconds() - 1) if sc.nconds() > 1 and rng.random() < 0.5 else 0
        dels = []
        for p in range(1, len(data) + 1):
            dels.append((rng.choice(BUF_SIZES), [p, 1]))
            dels.append((rng.choice(BUF_SIZES), [p, 1 << 20]))
        for _ in range(6):
            dels.append((rng.choice(BUF_SIZES), gen_sched(rng)))
        for di, (size, sched) in enumerate(dels):
            p = Plan()
            p.junk_seed = rng.randint(1, 1 << 30)
            p.junk_pat = rng.choice([0, 1, 2, 3])
            p.sources = [Source(data, sched)]
            it = p.insts[0]
            it.top = [Op('INIT')]
            if begin:
                it.top.append(Op('BEGIN', a=begin))
            it.top += [Op('SWITCHNEW', a=size), Op('LEX', a=100000), Op('DESTROY')]
            it.acts = [(o, Op(op.name, op.a, op.b, op.d)) for o, op in acts]
            plans.append(('i%dd%d' % (ii, di), p))
        # chained sources + in-memory buffers
        p = workload.gen_stream_plan(rng, sc, maxlen=40)
        for s in p.sources:
            s.data = gen_input(rng, alpha, len(s.data), stray=0.03)
        plans.append(('i%dchain' % ii, p))
    return plans


def work(ctx, idx):
    wr = WorkResult()
    cfg = TIERS[ctx.tier]
    rng = ctx.rng('scn', idx)
    if idx % 5 == 4:
        return work_sevenbit(ctx, idx, wr)
    sc = gen_scn(rng, idx)
    perm = choose_perm(rng, sc)
    tw = scenario.relabel_scenario(sc, perm)
    ba = ctx.build(sc)
    bb = ctx.build(tw)
    if not ba.ok or not bb.ok:
        if ba.ok != bb.ok and (ba.stage == 'flex' or bb.stage == 'flex') and 'dangerous' not in (ba.msg + bb.msg):
            wr.notes.append('scn %d: only one twin was accepted by flex: %s | %s' % (idx, ba.msg[-120:], bb.msg[-120:]))
        if (ba.stage == 'flex' or bb.stage == 'flex'):
            wr.refused += 1
        else:
            wr.unbuildable += 1
            wr.notes.append('scn %d unbuildable: %s' % (idx, (ba.msg or bb.msg).strip()[:200]))
        return wr
    wr.scenarios = 1
    wr.stats['back-end:' + sc.flavor] += 1
    plans = gen_plans(rng, sc, cfg)
    ra = common.run_batch(ba.exe, [(k, p.text()) for k, p in plans])
    rb = common.run_batch(bb.exe, [(k, relabel_plan(p, perm).text()) for k, p in plans])
    special = [k for k in perm if k == 0 or k >= 0x80][0]
    per_class = collections.Counter()
    for k, p in plans:
        x, y = ra.get(k), rb.get(k)
        if x is None or y is None:
            continue
        wr.evaluations += 1
        h = x.loghash()
        wr.hashes.add(h)
        ntok = sum(1 for ev in x.events if ev['k'] == 'T')
        if ntok >= 2 and any(special in s.data for s in p.sources):
            wr.nontrivial.add(h)
        sb.run_stats(x, p, wr.stats)
        wr.stats['probe:token-contains-nul'] += sum(1 for ev in x.events if ev['k'] == 'T' and '00' in [(ev.get('text') or '')[i:i + 2] for i in range(0, len(ev.get('text') or ''), 2)])
        wr.stats['probe:input-nul'] += sum(1 for ev in y.events if ev['k'] == 'V' and ev.get('input') == 0)
        wr.stats['probe:refill-with-partial-token'] += sum(1 for ev in x.events if ev['k'] == 'R' and isinstance(ev.get('ret'), int) and ev.get('ret', 0) > 0)
        wr.stats['twin-kind:' + ('NUL' if special == 0 else 'high-byte')] += 1
        viols = compare_twins(x, y, perm)
        if len(wr.samples) < 1 and ntok >= 3:
            wr.samples.append({'scenario': idx, 'flex_args': sc.flex_args(), 'perm': {str(a): b for a, b in perm.items()},
                               'rules': [sc.rule_line(i) for i in range(min(3, len(sc.rules)))],
                               'twin_rules': [tw.rule_line(i) for i in range(min(3, len(tw.rules)))],
                               'plan_text': p.text().split('\n')[:8]})
        for v in viols:
            if per_class[v.cls] >= 2:
                continue
            per_class[v.cls] += 1
            case = Case(ID, {'main': sc, 'twin': tw}, p, meta={'scn': idx, 'perm': [[a, b] for a, b in perm.items()], 'kind': 'twin'})
            wr.findings.append(Finding(v.cls, v.detail, case, v.seq, 'scn %d %s' % (idx, k)))
    return wr


def work_sevenbit(ctx, idx, wr):
    cfg = TIERS[ctx.tier]
    rng = ctx.rng('scn', idx)
    sc = scenario.gen_scenario(rng, want={'sevenbit': True}, forbid=('vtrail',))
    sc.alphabet = [b for b in sc.alphabet if b < 128] or [97, 98]
    sc.buf_size = None
    s7 = copy.copy(sc)
    s7._matchers = {}
    s7.bits = 7
    b8 = ctx.build(sc)
    b7 = ctx.build(s7)
    if not b8.ok or not b7.ok:
        if b8.ok and not b7.ok and b7.stage == 'flex' and 'dangerous' not in b7.msg:
            wr.findings.append(Finding('sevenbit', 'flex -7 refused a rule set that uses only 7-bit characters: %s' % b7.msg[-200:],
                                       Case(ID, {'main': sc, 'twin': s7}, Plan(), meta={'kind': 'sevenbit'}), -1, 'scn %d' % idx))
        wr.refused += 1
        return wr
    wr.scenarios = 1
    # an 8-bit pattern under -7 must be refused
    # (relabel a byte that really occurs in a pattern: the alphabet also
    # holds bytes that only the input uses)
    s8 = None
    for a in sc.alphabet:
        t = scenario.relabel_scenario(sc, {a: 0xe9})
        if any('\\xe9' in t.rule_line(i) for i in range(len(t.rules))):
            s8 = t
            break
    bx = None
    if s8 is not None:
        s8.bits = 7
        bx = ctx.build(s8)
        wr.evaluations += 1
        wr.stats['sevenbit-refusal-checks'] += 1
    if bx is not None and (bx.ok or bx.stage != 'flex'):
        wr.findings.append(Finding('sevenbit-not-refused', 'flex -7 accepted (exit 0) a pattern that needs the 8-bit character \\xe9 (stage=%s)' % bx.stage,
                                   Case(ID, {'main': s8}, Plan(), meta={'kind': 'refusal'}), -1, 'scn %d' % idx))
    plans = []
    for j in range(cfg['inputs'] * 8):
        prng = ctx.rng('scn', idx, 'plan', j)
        p = workload.gen_stream_plan(prng, sc, maxlen=60)
        for s in p.sources:
            s.data = bytes(b & 0x7f for b in s.data)
        for o, op in p.insts[0].acts:
            if op.name == 'UNPUT':
                op.a &= 0x7f
        plans.append(('p%d' % j, p))
    r8 = common.run_batch(b8.exe, [(k, p.text()) for k, p in plans])
    r7 = common.run_batch(b7.exe, [(k, p.text()) for k, p in plans])
    n = 0
    for k, p in plans:
        x, y = r8.get(k), r7.get(k)
        if x is None or y is None:
            continue
        wr.evaluations += 1
        wr.hashes.add(x.loghash())
        if sum(1 for ev in x.events if ev['k'] == 'T') >= 2:
            wr.nontrivial.add(x.loghash())
        wr.stats['sevenbit-pairs'] += 1
        if sb.status_class(x) or sb.status_class(y):
            continue
        a, b = obs(x), obs(y)
        if a != b and n < 2:
            n += 1
            i = next((i for i in range(min(len(a), len(b))) if a[i] != b[i]), min(len(a), len(b)))
            wr.findings.append(Finding('sevenbit', 'the -7 and -8 scanners differ on 7-bit input at item %d: %s versus %s' % (
                i, b[i] if i < len(b) else None, a[i] if i < len(a) else None),
                Case(ID, {'main': sc, 'twin': s7}, p, meta={'kind': 'sevenbit'}), -1, 'scn %d %s' % (idx, k)))
    return wr


def evaluate(ctx, case):
    kind = case.meta.get('kind')
    if kind == 'refusal':
        s8 = case.scs['main']
        if not any('\\xe9' in s8.rule_line(i) for i in range(len(s8.rules))):
            return [], {}
        bx = ctx.build(s8)
        if bx.ok or bx.stage != 'flex':
            return [model.Viol('sevenbit-not-refused', -1, 'flex -7 accepted a pattern that needs an 8-bit character')], {}
        return [], {}
    sc, tw = case.scs['main'], case.scs['twin']
    ba, bb = ctx.build(sc), ctx.build(tw)
    if kind == 'sevenbit':
        if ba.ok and not bb.ok and bb.stage == 'flex':
            return [model.Viol('sevenbit', -1, 'flex -7 refused a rule set that uses only 7-bit characters')], {}
        if not ba.ok or not bb.ok:
            return [], {}
        x = common.run_one(ba.exe, case.plan.text(), timeout=ctx.run_timeout)
        y = common.run_one(bb.exe, case.plan.text(), timeout=ctx.run_timeout)
        if sb.status_class(x) or sb.status_class(y) or obs(x) == obs(y):
            return [], {'main': x, 'twin': y}
        return [model.Viol('sevenbit', -1, 'the -7 and -8 scanners differ on 7-bit input')], {'main': x, 'twin': y}
    if not ba.ok or not bb.ok:
        return [], {}
    perm = {a: b for a, b in case.meta['perm']}
    x = common.run_one(ba.exe, case.plan.text(), timeout=ctx.run_timeout)
    y = common.run_one(bb.exe, relabel_plan(case.plan, perm).text(), timeout=ctx.run_timeout)
    return compare_twins(x, y, perm), {'main': x, 'twin': y}


def features(ctx, case, cls, detail):
    sc = case.scs['main']
    return {'tables': sc.tables, 'interactive_mode': sc.is_interactive_mode(), 'array': bool(sc.array)}

"""C05 - start conditions.
Part A (history): the current condition changes only through yybegin/yy_push_state/yy_pop_state; the
stack is an unbounded LIFO whose underflow is a reported fatal error.
Part B (activation, every third scenario): the scanner started in condition c behaves like the scanner
generated from only the rules the manual declares active in c (flattening differential), and like the
scanner generated from the same rules written inside (nested) start-condition scopes."""
import copy

from simlib import common, scenario, workload, model
from simlib.engine import Case, Finding, WorkResult
from simlib.plan import Plan, Source, Op, gen_input, gen_sched
from . import streambase as sb

ID = 'C05'
LEVEL = 'exploration'
RULE = ('seeded scenarios with 1-4 inclusive/exclusive conditions x seeded histories of yybegin/yy_push_state/yy_pop_state/yy_top_state '
        'made from actions, <<EOF>> actions and between yylex calls, mixed with yyrestart, buffer switches, yywrap continuation and new yyin; '
        'stack depths beyond 25 and 50 with an always-moving realloc; model = an integer and a list, compared after every op, action entry, '
        'yywrap call and yylex return; distinct = event-log hash, non-trivial = >= 3 condition ops executed. '
        'Part B (every third scenario): for every condition c of a seeded scenario with inclusive and exclusive conditions, <*> rules, '
        'rules naming one or several conditions and rules naming none, the token stream of the scanner after yybegin(c) is compared, on '
        'seeded inputs under seeded read schedules, with (1) the scanner generated from only the rules the manual declares active in c, all '
        'conditions removed, and (2) the scanner generated from the same rules written inside nested start-condition scopes')
TIERS = {
    'quick': {'scenarios': 64, 'plans': 150, 'wall_cap': 600},
    'thorough': {'scenarios': 4000, 'plans': 250, 'wall_cap': 3300},
}
COMPONENTS = sb.COMPONENTS
ASSUMPTIONS = ['a pop of an empty stack must call the fatal-error hook with the underflow message; any other fatal error in this workload is reported']
EXPECTED_PROBES = ['start-stack-grown', 'pop-empty-stack', 'eof-action']


class P(sb.StreamProp):
    ID = ID
    CLASSES = {'sanitizer', 'crash', 'start', 'fatal', 'activation', 'scope'}
    USE_MATCHER = False

    def gen_scenario(self, rng):
        return scenario.gen_scenario(rng, want={'feats': ('conds', 'xconds', 'star'), 'stack': True, 'flavors': ['nr', 'nr', 'r', 'r', 'c99', 'c99', 'cxx', 'cxx']})

    def gen_plan(self, rng, sc):
        return workload.gen_state_plan(rng, sc)

    def nontrivial(self, m, res):
        n = sum(m.stats.get(k, 0) for k in ('op-begin', 'op-push-state', 'op-pop-state'))
        return n >= 3


PROP = P()


# ---------------------------------------------------------------- part B
def manual_active(sc, r, c):
    """is rule r active in condition index c, as the manual states it (written independently of Scenario.active)"""
    if r.is_eof:
        return False
    if r.star:
        return True
    if r.conds:
        return c in r.conds
    return not sc.conds[c][1]        # no condition named: active in inclusive conditions only (INITIAL is inclusive)


def flatten(sc, c):
    f = copy.copy(sc)
    f._matchers = {}
    f.conds = [('INITIAL', False)]
    f.rules = []
    for i, r in enumerate(sc.rules):
        if manual_active(sc, r, c):
            q = copy.copy(r)
            q.styles = dict(r.styles)
            q.ident = i + 1
            q.conds = []
            q.star = False
            f.rules.append(q)
    return f


def scoped(sc):
    t = copy.copy(sc)
    t._matchers = {}
    t.scoped = True
    return t


def toks(res):
    out = []
    for ev in res.events:
        if ev['k'] == 'T':
            out.append(('T', ev['rule'], ev.get('text'), ev['len']))
        elif ev['k'] == 'F':
            out.append(('F', ev.get('msg')))
        elif ev['k'] == 'L':
            out.append(('L', ev['ret']))
    return out


def b_plan(rng, sc, c):
    p = Plan()
    p.junk_seed = rng.randint(1, 1 << 30)
    data = gen_input(rng, sc.alphabet, rng.choice([1, 3, 8, 20, 40]), stray=0.03)
    p.sources = [Source(data, gen_sched(rng))]
    it = p.insts[0]
    it.top = [Op('INIT'), Op('BEGIN', a=c), Op('SWITCHNEW', a=rng.choice([1, 2, 3, 8, 64, 16384])), Op('LEX', a=5000), Op('DESTROY')]
    return p


def without_begin(p):
    q = p.copy()
    q.insts[0].top = [op for op in q.insts[0].top if op.name != 'BEGIN']
    return q


def b_compare(ra, rb, what):
    a, b = toks(ra), toks(rb)
    if a == b:
        return None
    i = next((i for i in range(min(len(a), len(b))) if a[i] != b[i]), min(len(a), len(b)))
    return 'item %d: the scanner with start conditions gives %s, %s gives %s' % (i, a[i] if i < len(a) else None, what, b[i] if i < len(b) else None)


def work_b(ctx, idx):
    wr = WorkResult()
    cfg = TIERS[ctx.tier]
    rng = ctx.rng('scnB', idx)
    sc = scenario.gen_scenario(rng, want={'feats': ('conds', 'xconds', 'star'), 'stack': True, 'flavors': ['nr', 'r', 'cxx']},
                               forbid=('eofrules', 'bar', 'vtrail'))
    ss = scoped(sc)
    b, bsc = ctx.build(sc), ctx.build(ss)
    if not b.ok or not bsc.ok:
        if b.ok != bsc.ok and 'dangerous' not in (b.msg + bsc.msg):
            wr.findings.append(Finding('scope', 'only one of the prefixed / scoped renderings of a rule set is accepted: %s | %s' % (b.msg[-150:], bsc.msg[-150:]),
                                       Case(ID, {'main': sc, 'scoped': ss}, Plan(), meta={'kind': 'partB-build'}), -1, 'scn %d' % idx))
        wr.refused += 1
        return wr
    wr.scenarios = 1
    wr.stats['back-end:' + sc.flavor] += 1
    wr.stats['partB-scenarios'] += 1
    per = {'activation': 0, 'scope': 0}
    for c in range(sc.nconds()):
        fl = flatten(sc, c)
        bf = ctx.build(fl)
        if not bf.ok:
            if 'dangerous' not in bf.msg:
                wr.notes.append('scn %d cond %d: flattened scenario not built (%s): %s' % (idx, c, bf.stage, bf.msg.strip()[-160:]))
            continue
        plans = [('c%dp%d' % (c, j), b_plan(ctx.rng('scnB', idx, c, j), sc, c)) for j in range(max(4, cfg['plans'] // 5))]
        ra = common.run_batch(b.exe, [(k, p.text()) for k, p in plans])
        rs = common.run_batch(bsc.exe, [(k, p.text()) for k, p in plans])
        rf = common.run_batch(bf.exe, [(k, without_begin(p).text()) for k, p in plans])
        for k, p in plans:
            if k not in ra or k not in rs or k not in rf:
                continue
            if any(sb.status_class(r) is not None for r in (ra[k], rs[k], rf[k])):
                continue         # crashes and hangs belong to other classes and other checks
            wr.evaluations += 1
            wr.hashes.add(ra[k].loghash())
            wr.stats['partB-condition-' + ('exclusive' if sc.conds[c][1] else 'inclusive')] += 1
            if sum(1 for ev in ra[k].events if ev['k'] == 'T') >= 2:
                wr.nontrivial.add(ra[k].loghash())
            for cls, rb, what in (('activation', rf[k], 'the scanner built from the rules active in condition %d only' % c),
                                  ('scope', rs[k], 'the scanner built from the same rules written in nested scopes')):
                d = b_compare(ra[k], rb, what)
                if d and per[cls] < 2:
                    per[cls] += 1
                    wr.findings.append(Finding(cls, d, Case(ID, {'main': sc, 'scoped': ss, 'flat': fl}, p, meta={'kind': 'partB', 'cond': c, 'scn': idx}), -1,
                                               'scn %d cond %d %s' % (idx, c, k)))
    return wr


def work(ctx, idx):
    if idx % 3 == 2:
        return work_b(ctx, idx)
    return sb.work(PROP, ctx, idx, TIERS[ctx.tier]['plans'])


def evaluate(ctx, case):
    kind = case.meta.get('kind')
    if kind == 'partB-build':
        b, bsc = ctx.build(case.scs['main']), ctx.build(case.scs['scoped'])
        if b.ok != bsc.ok:
            return [model.Viol('scope', -1, 'only one of the prefixed / scoped renderings of a rule set is accepted')], {}
        return [], {}
    if kind == 'partB':
        sc, ss, fl = case.scs['main'], case.scs['scoped'], case.scs['flat']
        b, bsc, bf = ctx.build(sc), ctx.build(ss), ctx.build(fl)
        if not (b.ok and bsc.ok and bf.ok):
            return [], {}
        p = case.plan
        ra = common.run_one(b.exe, p.text(), timeout=ctx.run_timeout)
        rs = common.run_one(bsc.exe, p.text(), timeout=ctx.run_timeout)
        rf = common.run_one(bf.exe, without_begin(p).text(), timeout=ctx.run_timeout)
        if any(sb.status_class(r) is not None for r in (ra, rs, rf)):
            return [], {'main': ra, 'scoped': rs, 'flat': rf}
        out = []
        c = case.meta.get('cond')
        d = b_compare(ra, rf, 'the scanner built from the rules active in condition %s only' % c)
        if d:
            out.append(model.Viol('activation', -1, d))
        d = b_compare(ra, rs, 'the scanner built from the same rules written in nested scopes')
        if d:
            out.append(model.Viol('scope', -1, d))
        return out, {'main': ra, 'scoped': rs, 'flat': rf}
    return sb.evaluate(PROP, ctx, case)


def features(ctx, case, cls, detail):
    if str(case.meta.get('kind', '')).startswith('partB'):
        return {'class': cls, 'part': 'B'}
    return sb.features(PROP, ctx, case, cls, detail)

"""C05 - start conditions (history part): the current condition changes only
through yybegin/yy_push_state/yy_pop_state; the stack is an unbounded LIFO
whose underflow is a reported fatal error.  (Activation of rules per
condition is checked by the flattening differential in c05 part B.)"""
from simlib import scenario, workload
from . import streambase as sb

ID = 'C05'
LEVEL = 'exploration'
RULE = ('seeded scenarios with 1-4 inclusive/exclusive conditions x seeded histories of yybegin/yy_push_state/yy_pop_state/yy_top_state '
        'made from actions, <<EOF>> actions and between yylex calls, mixed with yyrestart, buffer switches, yywrap continuation and new yyin; '
        'stack depths beyond 25 and 50 with an always-moving realloc; model = an integer and a list, compared after every op, action entry, '
        'yywrap call and yylex return; distinct = event-log hash, non-trivial = >= 3 condition ops executed')
TIERS = {
    'quick': {'scenarios': 40, 'plans': 100, 'wall_cap': 600},
    'thorough': {'scenarios': 1000, 'plans': 250, 'wall_cap': 3300},
}
COMPONENTS = sb.COMPONENTS
ASSUMPTIONS = ['a pop of an empty stack must call the fatal-error hook with the underflow message; any other fatal error in this workload is reported']
EXPECTED_PROBES = ['start-stack-grown', 'pop-empty-stack', 'eof-action']


class P(sb.StreamProp):
    ID = ID
    CLASSES = {'start', 'fatal', 'activation'}
    USE_MATCHER = False

    def gen_scenario(self, rng):
        return scenario.gen_scenario(rng, want={'feats': ('conds', 'xconds', 'star'), 'stack': True, 'flavors': ['nr', 'nr', 'r', 'r', 'c99', 'cxx']})

    def gen_plan(self, rng, sc):
        return workload.gen_state_plan(rng, sc)

    def nontrivial(self, m, res):
        n = sum(m.stats.get(k, 0) for k in ('op-begin', 'op-push-state', 'op-pop-state'))
        return n >= 3


PROP = P()


def work(ctx, idx):
    return sb.work(PROP, ctx, idx, TIERS[ctx.tier]['plans'])


def evaluate(ctx, case):
    return sb.evaluate(PROP, ctx, case)


def features(ctx, case, cls, detail):
    return sb.features(PROP, ctx, case, cls, detail)

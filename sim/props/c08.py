"""C08 - yymore, yyless, yyunput, yyinput edit the input stream exactly as documented."""
from simlib import scenario, workload
from . import streambase as sb

ID = 'C08'
LEVEL = 'exploration'
RULE = ('seeded scenarios (rule set + flex configuration incl. %array/%pointer, table mode, buffer size 1..default) x seeded plans '
        '(1-3 chained sources, read-size schedule, in-action scripts of yyless/yyunput/yyinput/yymore/REJECT/BEGIN/return); every run is '
        'checked event by event against the byte-stream reference model; distinct = distinct event-log hash, non-trivial = run with >= 2 '
        'tokens and >= 1 executed edit op')
TIERS = {
    'quick': {'scenarios': 80, 'plans': 200, 'wall_cap': 600},
    'thorough': {'scenarios': 5000, 'plans': 300, 'wall_cap': 3300},
}
COMPONENTS = sb.COMPONENTS
ASSUMPTIONS = [
    'op scripts are restricted to the combinations the manual defines (DESIGN section 4); %array yyless() after yymore() is excluded and probed separately',
    'tokenisation is predicted by an independent matcher; a disagreement that persists with no history at all is attributed to C01/C06 and not reported here',
]
EXPECTED_PROBES = ['refill-with-partial-token', 'token-longer-than-buffer', 'input-at-eof', 'input-nul',
                   'legit-pushback-overflow', 'token-with-more-prefix', 'eof-with-pending-text']


class P(sb.StreamProp):
    ID = ID
    CLASSES = {'sanitizer', 'crash', 'token', 'less', 'input', 'more', 'stream', 'phantom', 'fatal', 'hang'}

    def gen_scenario(self, rng):
        return scenario.gen_scenario(rng, forbid=('vtrail',), want={'flavors': ['nr', 'nr', 'r', 'r', 'c99', 'c99', 'cxx', 'cxx']})

    def gen_plan(self, rng, sc):
        return workload.gen_stream_plan(rng, sc, density=rng.choice([0.1, 0.3, 0.6]),
                                        kinds=['LESS', 'UNPUT', 'INPUT', 'MORE', 'REJECT', 'BEGIN', 'RETURN', 'LESS', 'UNPUT', 'INPUT', 'MORE'])

    def nontrivial(self, m, res):
        ops = sum(m.stats.get(k, 0) for k in ('op-less', 'op-unput', 'op-input', 'op-more'))
        return m.ntok >= 2 and ops >= 1


PROP = P()


def work(ctx, idx):
    return sb.work(PROP, ctx, idx, TIERS[ctx.tier]['plans'])


def evaluate(ctx, case):
    return sb.evaluate(PROP, ctx, case)


def probes(ctx):
    from simlib import rx
    from simlib.plan import Plan, Source, Op
    sc = scenario.Scenario()
    sc.rules = [scenario.Rule(pat=rx.cls(rx.ALL), conds=[])]
    sc.array = True
    sc.flavor = 'nr'
    p = Plan()
    p.allow = 1
    p.sources = [Source(b'abcd', [8])]
    it = p.insts[0]
    it.top = [Op('INIT'), Op('LEX', a=100)]
    it.acts = [(1, Op('MORE')), (1, Op('LESS', a=1))]
    out = sb.probe(PROP, ctx, 'array-more-then-less', sc, p, 'more')
    # yyinput() called again after it reported the end of an in-memory buffer
    sc = scenario.Scenario()
    sc.rules = [scenario.Rule(pat=rx.cls(rx.ALL), conds=[])]
    sc.flavor = 'nr'
    p = Plan()
    it = p.insts[0]
    it.top = [Op('INIT'), Op('SCAN_BYTES', d=b'ab'), Op('LEX', a=100)]
    it.acts = [(1, Op('INPUT')), (1, Op('INPUT'))]
    out += sb.probe(PROP, ctx, 'input-again-at-eof', sc, p, 'fatal')
    return out


def features(ctx, case, cls, detail):
    return sb.features(PROP, ctx, case, cls, detail)

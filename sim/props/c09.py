"""C09 - yylineno equals one plus the number of newlines consumed."""
from simlib import scenario, workload
from . import streambase as sb

ID = 'C09'
LEVEL = 'exploration'
RULE = ('seeded scenarios biased to rules that match newlines only through classes, negated classes, (?s:.), trailing context (fixed and '
        'variable) and the | action, with and without %option yylineno, reentrant and not x seeded plans (edit ops, REJECT, yyset_lineno/'
        'yyget_lineno between calls, nested buffers in reentrant scanners); conservation invariant yylineno == L0 + newlines consumed, '
        'computed from the scanner\'s own reported texts and ops, checked at every action entry, after every op and after every yylex return; '
        'distinct = event-log hash, non-trivial = >= 2 tokens and >= 1 newline consumed')
TIERS = {
    'quick': {'scenarios': 80, 'plans': 200, 'wall_cap': 600},
    'thorough': {'scenarios': 5000, 'plans': 250, 'wall_cap': 3300},
}
COMPONENTS = sb.COMPONENTS
ASSUMPTIONS = ['the oracle is self-relative: it uses no tokeniser model, so tokenisation bugs cannot trigger it']
EXPECTED_PROBES = ['refill-with-partial-token', 'token-with-more-prefix', 'default-rule-token']


class P(sb.StreamProp):
    ID = ID
    CLASSES = {'sanitizer', 'crash', 'lineno'}
    USE_MATCHER = False

    def gen_scenario(self, rng):
        want = {'feats': ('nl',), 'lineno': rng.random() < 0.85, 'flavors': ['nr', 'nr', 'r', 'r', 'c99', 'c99', 'cxx', 'cxx']}
        sc = scenario.gen_scenario(rng, want=want)
        return sc

    def gen_plan(self, rng, sc):
        return workload.gen_lineno_plan(rng, sc)

    def nontrivial(self, m, res):
        nl = sum(1 for t in m.tokens if t[1] and '0a' in [t[1][i:i + 2] for i in range(0, len(t[1]), 2)])
        return m.ntok >= 2 and nl >= 1


PROP = P()


def work(ctx, idx):
    return sb.work(PROP, ctx, idx, TIERS[ctx.tier]['plans'])


def evaluate(ctx, case):
    return sb.evaluate(PROP, ctx, case)


def features(ctx, case, cls, detail):
    return sb.features(PROP, ctx, case, cls, detail)

"""C10 - end of input: pending text tokenised, yywrap consulted, EOF action run."""
from simlib import scenario, workload
from . import streambase as sb

ID = 'C10'
LEVEL = 'exploration'
RULE = ('seeded scenarios with <<EOF>> rules assigned to arbitrary subsets of conditions (plus optionally an unqualified one) x seeded plans: '
        'chains of 1-5 sources (empty ones included) each delivered under a read schedule, premature end indications with data following, '
        'yywrap policies (stop / new yyin / switch or push a new buffer / pop back to a buffer left in mid-stream / answer 0 and let the same stream go on), scans that start on a yy_scan_bytes/yy_scan_string copy, buffers pushed from ordinary actions, <<EOF>> action scripts (terminate, return, new file, buffer switch), '
        'and yylex / new-yyin / yyrestart calls after termination; judged by the stream model: nothing delivered is left untokenised when yywrap '
        'is consulted, nothing is read between an end indication and yywrap, the EOF action is the one of the current condition, the condition '
        'survives, the new source starts at beginning of line, no byte of any source is lost; distinct = event-log hash, non-trivial = >= 2 '
        'yywrap consultations or an EOF action')
TIERS = {
    'quick': {'scenarios': 80, 'plans': 200, 'wall_cap': 600},
    'thorough': {'scenarios': 5000, 'plans': 300, 'wall_cap': 3300},
}
COMPONENTS = sb.COMPONENTS
ASSUMPTIONS = ['a yymore prefix pending when yywrap supplies a new source may be kept or dropped (manual is silent)',
               'tokenisation disagreements that persist without any history are attributed to C01/C06']
EXPECTED_PROBES = ['eof-with-pending-text', 'eof-action', 'eof-ind', 'input-at-eof']


class P(sb.StreamProp):
    ID = ID
    CLASSES = {'sanitizer', 'crash', 'wrap-with-pending', 'wrap-without-eof', 'read-after-eof', 'eof', 'token', 'premature', 'stream', 'bol', 'start', 'fatal', 'hang', 'input', 'phantom'}

    def gen_scenario(self, rng):
        return scenario.gen_scenario(rng, want={'feats': ('eofrules',), 'flavors': ['nr', 'nr', 'r', 'r', 'c99', 'c99', 'cxx', 'cxx']}, forbid=('vtrail',))

    def gen_plan(self, rng, sc):
        return workload.gen_eof_plan(rng, sc)

    def nontrivial(self, m, res):
        return m.wraps >= 2 or m.stats.get('eof-action', 0) >= 1


PROP = P()


def work(ctx, idx):
    return sb.work(PROP, ctx, idx, TIERS[ctx.tier]['plans'])


def evaluate(ctx, case):
    return sb.evaluate(PROP, ctx, case)


def probes(ctx):
    from simlib import rx
    from simlib.plan import Plan, Source, Op
    sc = scenario.Scenario()
    sc.rules = [scenario.Rule(pat=rx.cls(rx.ALL), conds=[]), scenario.Rule(is_eof=True, conds=[])]
    sc.flavor = 'nr'
    p = Plan()
    p.allow = 2
    p.sources = [Source(b'z', [8]), Source(b'ab', [8])]
    it = p.insts[0]
    it.top = [Op('INIT'), Op('LEX', a=100)]
    it.acts = [(0, Op('MORE')), (3, Op('POP_BUF')), (5, Op('POP_BUF'))]
    it.wraps = [Op('PUSHNEW', a=16)]
    return sb.probe(PROP, ctx, 'more-eof-switch', sc, p, 'phantom')


def features(ctx, case, cls, detail):
    return sb.features(PROP, ctx, case, cls, detail)

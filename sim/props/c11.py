"""C11 - multiple input buffers keep independent positions and contents."""
from simlib import scenario, workload
from . import streambase as sb

ID = 'C11'
LEVEL = 'exploration'
RULE = ('seeded scenarios x seeded histories over yy_create_buffer / yy_scan_string / yy_scan_bytes / yy_scan_buffer / yy_switch_to_buffer / '
        'yypush_buffer_state / yypop_buffer_state / yy_flush_buffer / yy_delete_buffer / yylex, issued from top level, from inside actions, '
        'from <<EOF>> actions and from yywrap; 3-30 sources with their own read schedules and buffer sizes (1..16384), nesting beyond the '
        'initial stack allocation (1, then +8, +8). The reference model keeps, per buffer, the bytes delivered or pushed back and not yet '
        'consumed, the BOL flag and (reentrant) the line number; every token must be the next unread text of the buffer it is attributed to, '
        'the scanner\'s current buffer must be the one the stack model says, yy_scan_buffer returns NULL exactly for a buffer lacking the two '
        'NULs, the caller\'s array is scribbled over right after yy_scan_string/bytes, yy_flush_buffer drops exactly the buffered bytes. '
        'distinct = event-log hash, non-trivial = tokens attributed to >= 2 buffers')
TIERS = {
    'quick': {'scenarios': 80, 'plans': 200, 'wall_cap': 600},
    'thorough': {'scenarios': 5000, 'plans': 250, 'wall_cap': 3300},
}
COMPONENTS = sb.COMPONENTS
ASSUMPTIONS = ['only histories the manual permits are generated (DESIGN section 4): no use of a deleted buffer, a buffer is on the stack at most once, '
               'no yylex without a current buffer, no text op after a buffer op in the same action',
               'tokenisation disagreements that persist with no history are attributed to C01/C06']
EXPECTED_PROBES = ['buffer-stack-depth>1', 'buffer-stack-grown-twice', 'flush-dropped-bytes', 'scan-buffer-null-ok']


class P(sb.StreamProp):
    ID = ID
    CLASSES = {'sanitizer', 'crash', 'stream', 'phantom', 'token', 'premature', 'curbuf', 'api', 'bol', 'lineno', 'fatal', 'hang', 'input', 'less',
               'wrap-with-pending', 'wrap-without-eof', 'read-after-eof'}

    def gen_scenario(self, rng):
        return scenario.gen_scenario(rng, forbid=('vtrail',), want={'yymore': False, 'flavors': ['nr', 'nr', 'r', 'r', 'c99', 'c99', 'cxx', 'cxx']})

    def gen_plan(self, rng, sc):
        return workload.gen_buffer_plan(rng, sc)

    def nontrivial(self, m, res):
        return len({t[3] for t in m.tokens}) >= 2


PROP = P()


def work(ctx, idx):
    return sb.work(PROP, ctx, idx, TIERS[ctx.tier]['plans'])


def evaluate(ctx, case):
    return sb.evaluate(PROP, ctx, case)


def features(ctx, case, cls, detail):
    return sb.features(PROP, ctx, case, cls, detail)


def probes(ctx):
    from simlib import rx
    from simlib.plan import Plan, Source, Op
    sc = scenario.Scenario()
    sc.rules = [scenario.Rule(pat=rx.cls(rx.ALL), conds=[]), scenario.Rule(is_eof=True, conds=[])]
    sc.flavor = 'nr'
    p = Plan()
    p.sources = [Source(b'xy', [8])]
    it = p.insts[0]
    it.top = [Op('INIT'), Op('SCAN_BYTES', d=b'ab'), Op('LEX', a=100), Op('LEX', a=100)]
    it.wraps = [Op('SWITCHNEW', a=16)]
    # the first EOF action (end of the stream buffer) switches back to the
    # string buffer that was scanned to its end earlier
    it.acts = [(4, Op('SWITCH', a=0))]
    return sb.probe(PROP, ctx, 'return-to-exhausted-memory-buffer', sc, p, 'fatal')

"""C12 - scanner instances are isolated from each other and safe to run in parallel."""
import collections
import copy

from simlib import common, scenario, workload, model
from simlib.engine import Case, Finding, WorkResult
from simlib.plan import Plan, Source, Op, Inst
from . import streambase as sb

ID = 'C12'
LEVEL = 'exploration'
RULE = ('2-6 scanner instances per run: several instances of one reentrant C scanner (a third of them built with --tables-file: serialized tables loaded once and shared), '
        'of one c99 scanner or of one C++ lexer class, and 2-3 scanners generated with different prefixes (non-reentrant ones included) linked into one executable.  Instances are real pthreads; exactly one holds the baton, which is handed over at '
        'every simulator callback (read, allocation, action entry, yywrap, between top-level calls) according to the plan\'s seeded schedule, '
        'so one seed is one interleaving.  Oracle: each instance\'s projected event log (tokens, op results, reads, allocator calls, fatal '
        'errors) equals the log of the same instance run alone; no pointer crosses instances in the allocation ledger; the multi-prefix '
        'executable links.  Supplementary free-running mode: the same workload without the baton under ThreadSanitizer (runtime monitoring, '
        'reported only when it reproduces in 3 of 6 repetitions).  distinct = interleaving string (sequence of baton hand-overs), non-trivial = >= 2 '
        'instances each delivering >= 2 tokens with >= 3 hand-overs')
TIERS = {
    'quick': {'scenarios': 40, 'plans': 60, 'tsan_scenarios': 2, 'tsan_plans': 6, 'wall_cap': 600},
    'thorough': {'scenarios': 1600, 'plans': 120, 'tsan_scenarios': 24, 'tsan_plans': 20, 'wall_cap': 3300},
}
COMPONENTS = dict(sb.COMPONENTS)
ASSUMPTIONS = ['a serialising scheduler cannot expose state shared only between two yield points; the free-running ThreadSanitizer mode covers that and is runtime monitoring, not simulation',
               'C++ lexer objects are not yet driven by the harness']
EXPECTED_PROBES = []
CLASSES = {'isolation', 'ledger', 'link', 'tsan-race', 'sanitizer', 'crash', 'hang'}


def gen_scenarios(rng):
    """list of scenarios linked together"""
    mode = rng.choice(['same', 'same', 'multi'])
    if mode == 'same':
        sc = scenario.gen_scenario(rng, want={'flavor': rng.choice(['r', 'r', 'c99', 'cxx'])})
        sc.name = 's0'
        if sc.flavor == 'r' and rng.random() < 0.35:
            # serialized tables: loaded once (by whichever instance gets there first), shared by all instances
            sc.tables_file = True
        return [sc]
    scs = []
    n = rng.randint(2, 3)
    for i in range(n):
        fl = 'nr' if rng.random() < (0.7 if i == 0 else 0.35) else rng.choice(['r', 'r', 'c99', 'cxx'])
        sc = scenario.gen_scenario(rng, want={'flavor': fl})
        sc.name = 's%d' % i
        sc.prefix = 'px%d_' % i
        scs.append(sc)
    if all(s.flavor != 'nr' for s in scs) and rng.random() < 0.5:
        scs[0].flavor = 'nr'
    # two c99 scanners in one program clash on the skeleton's global constants
    # (known finding K-c99-link-clash, kept visible by a directed probe): at most one here
    seen = False
    for sc in scs:
        if sc.flavor == 'c99':
            if seen:
                sc.flavor = 'r'
                sc.c99_catchall = False
                sc.rules = [r for r in sc.rules]
            seen = True
    return scs


def gen_plan(rng, scs):
    """merged plan: one sub-plan per instance"""
    p = Plan()
    p.junk_seed = rng.randint(1, 1 << 30)
    p.junk_pat = rng.choice([0, 1, 2, 3])
    p.insts = []
    p.sources = []
    ninst = rng.randint(2, 6)
    used_nr = set()
    for i in range(ninst):
        si = rng.randrange(len(scs))
        sc = scs[si]
        if sc.flavor == 'nr':
            if si in used_nr:
                # a non-reentrant scanner is one instance
                cands = [k for k in range(len(scs)) if scs[k].flavor == 'r']
                if not cands:
                    continue
                si = rng.choice(cands)
                sc = scs[si]
            else:
                used_nr.add(si)
        g = rng.choice(['stream', 'stream', 'eof', 'buffers', 'state'])
        if g == 'stream':
            sub = workload.gen_stream_plan(rng, sc, maxlen=40)
        elif g == 'eof':
            sub = workload.gen_eof_plan(rng, sc)
        elif g == 'buffers':
            sub = workload.gen_buffer_plan(rng, sc)
            sub.sources = sub.sources[:8]
        else:
            sub = workload.gen_state_plan(rng, sc)
        it = sub.insts[0]
        it.scn = sc.name
        idx = len(p.insts)
        for s in sub.sources:
            s.inst = idx
            p.sources.append(s)
        p.insts.append(it)
    if len(p.insts) < 2:
        return None
    if len(scs) == 1 and scs[0].tables_file:
        for it in p.insts:
            top = []
            for op in it.top:
                top.append(op)
                if op.name == 'INIT' and not any(o.name == 'TABLES_LOAD' for o in top):
                    top.append(Op('TABLES_LOAD', a=0))
            it.top = top
        p.tfiles = [{'parts': ['main']}]
    p.sched = [rng.randint(0, 5) for _ in range(rng.randint(5, 60))]
    if rng.random() < 0.2:
        p.sched = [1]      # strict round robin
    return p


def set_tables_path(p, b, scs):
    if p.tfiles and len(scs) == 1 and scs[0].tables_file:
        import os
        p.tpaths = {'main': os.path.join(os.path.dirname(b.c_path), scs[0].name + '.tables')}


def solo_plan(p, i):
    q = Plan()
    q.junk_seed = p.junk_seed
    q.junk_pat = p.junk_pat
    q.tfiles = copy.deepcopy(p.tfiles)
    q.tpaths = dict(p.tpaths) if p.tpaths else p.tpaths
    q.insts = [copy.deepcopy(p.insts[i])]
    if q.tfiles and not any(op.name == 'TABLES_LOAD' for op in q.insts[0].top):
        # alone, the instance has to load the shared tables itself
        top = []
        for op in q.insts[0].top:
            top.append(op)
            if op.name == 'INIT' and not any(o.name == 'TABLES_LOAD' for o in top):
                top.append(Op('TABLES_LOAD', a=0))
        q.insts[0].top = top
    q.sources = []
    for s in p.sources:
        if s.inst == i:
            s2 = copy.deepcopy(s)
            s2.inst = 0
            q.sources.append(s2)
    return q


def project(res, i, srcmap=None, tables=False):
    """what instance i did, without scheduling artefacts"""
    out = []
    loading = False
    ids = {}
    for ev in res.events:
        if ev.get('inst') != i:
            continue
        k = ev['k']
        if k == 'S':
            continue
        # the serialized tables are loaded by whichever instance gets there first: what an instance does
        # is compared without the loading itself (op, reads of the tables file, allocations of the loader)
        if k in ('P', 'K'):
            loading = ev.get('op') == 'TABLES_LOAD'
        elif k in ('Z', 'D'):
            loading = False
        if loading:
            continue
        item = [k]
        for a in sorted(ev):
            if a in ('seq', 'inst', 'k'):
                continue
            if tables and k in ('Z', 'D') and a in ('bytes', 'live', 'tables'):
                continue      # whether this instance holds the shared tables depends on who came first
            if tables and a == 'idx':
                continue      # op positions shift by the TABLES_LOAD the solo plan may have to add
            v = ev[a]
            if a in ('id', 'old') and isinstance(v, str) and '.' in v:
                v = ids.setdefault(v.split('.', 1)[1], len(ids))    # numbered by first appearance
            if a == 'src' and srcmap is not None and isinstance(v, int):
                v = srcmap.get(v, v)
            if a == 'h' and srcmap is not None and isinstance(v, int) and ev.get('op') in ('LEX', 'SET_YYIN', 'RESTART', 'NEWFILE', 'CREATE_BUF', 'PUSHNEW', 'SWITCHNEW') and v >= 0:
                v = srcmap.get(v, v)
            if isinstance(v, list):
                v = tuple(v)
            item.append((a, v))
        out.append(tuple(item))
    return out


def src_map(p, i):
    """global source id -> id in the solo plan of instance i"""
    m = {}
    n = 0
    for g, s in enumerate(p.sources):
        if s.inst == i:
            m[g] = n
            n += 1
    return m


def judge(ctx, b, p, r):
    viols = []
    runs = {'inter': r}
    st = sb.status_class(r)
    if st == 'sanitizer':
        return [model.Viol('sanitizer', -1, sb.san_summary(r.stderr))], runs
    if st in ('crash', 'hang', 'abnormal-exit'):
        return [model.Viol('crash' if st != 'hang' else 'hang', -1, 'interleaved run ended with %s' % r.status)], runs
    for ev in r.events:
        if ev['k'] == 'X':
            viols.append(model.Viol('ledger', ev['seq'], ev.get('msg', '')))
    solos = common.run_batch(b.exe, [('solo%d' % i, solo_plan(p, i).text()) for i in range(len(p.insts))])
    for i in range(len(p.insts)):
        rs = solos.get('solo%d' % i)
        if rs is None:
            continue
        runs['solo%d' % i] = rs
        if sb.status_class(rs):
            continue
        a = project(r, i, src_map(p, i), tables=bool(p.tfiles))
        c = project(rs, 0, tables=bool(p.tfiles))
        if a != c:
            n = min(len(a), len(c))
            j = next((j for j in range(n) if a[j] != c[j]), n)
            viols.append(model.Viol('isolation', -1, 'instance %d (scanner %s) behaves differently when interleaved: item %d is %s, alone it is %s' % (
                i, p.insts[i].scn, j, a[j] if j < len(a) else None, c[j] if j < len(c) else None)))
            break
    return viols, runs


def interleaving(res):
    return ''.join(str(ev.get('to')) for ev in res.events if ev['k'] == 'S')


def work(ctx, idx):
    wr = WorkResult()
    cfg = TIERS[ctx.tier]
    rng = ctx.rng('scn', idx)
    scs = gen_scenarios(rng)
    b = ctx.build_multi(scs) if len(scs) > 1 else ctx.build(scs[0])
    if not b.ok:
        if b.stage == 'link':
            case = Case(ID, {('s%d' % i): sc for i, sc in enumerate(scs)}, Plan(), meta={'kind': 'link', 'n': len(scs)})
            wr.findings.append(Finding('link', 'scanners with different prefixes do not link into one program: %s' % b.msg[-400:], case, -1, 'scn %d' % idx))
        elif b.stage == 'flex':
            wr.refused += 1
        else:
            wr.unbuildable += 1
            wr.notes.append('scn %d unbuildable (%s): %s' % (idx, b.stage, b.msg.strip()[:200]))
        return wr
    wr.scenarios = 1
    for s_ in scs:
        wr.stats['back-end:' + s_.flavor] += 1
    plans = []
    for j in range(cfg['plans']):
        p = gen_plan(ctx.rng('scn', idx, 'plan', j), scs)
        if p is not None:
            set_tables_path(p, b, scs)
            plans.append(('p%d' % j, p))
    if len(scs) == 1 and scs[0].tables_file:
        wr.stats['mode:shared-serialized-tables'] += 1
    res = common.run_batch(b.exe, [(k, p.text()) for k, p in plans])
    per_class = collections.Counter()
    for k, p in plans:
        r = res.get(k)
        if r is None:
            continue
        wr.evaluations += 1
        il = interleaving(r)
        wr.hashes.add(il)
        per_inst = collections.Counter(ev['inst'] for ev in r.events if ev['k'] == 'T')
        if len(il) >= 3 and sum(1 for v in per_inst.values() if v >= 2) >= 2:
            wr.nontrivial.add(il)
        wr.stats['fault:baton-handovers'] += len(il)
        wr.stats['instances'] += len(p.insts)
        wr.stats['mode:' + ('multi-prefix' if len(scs) > 1 else 'same-scanner')] += 1
        sb.run_stats(r, p, wr.stats)
        viols, runs = judge(ctx, b, p, r)
        if len(wr.samples) < 1 and len(il) > 5:
            wr.samples.append({'scenario': idx, 'scanners': [(s.name, s.flavor, s.prefix) for s in scs], 'instances': [it.scn for it in p.insts],
                               'schedule': p.sched[:20], 'interleaving': il[:60]})
        for v in viols:
            if v.cls not in CLASSES or per_class[v.cls] >= 2:
                continue
            per_class[v.cls] += 1
            case = Case(ID, {('s%d' % i): sc for i, sc in enumerate(scs)}, p, meta={'scn': idx, 'kind': 'baton', 'n': len(scs)})
            wr.findings.append(Finding(v.cls, v.detail, case, v.seq, 'scn %d %s' % (idx, k)))
    # ---- free-running supplement under ThreadSanitizer (same-scanner reentrant only)
    if idx < cfg['tsan_scenarios'] and all(s.flavor != 'nr' and not s.tables_file for s in scs):
        bt = ctx.build_multi(scs, san=False, tsan=True) if len(scs) > 1 else ctx.build(scs[0], san=False, tsan=True)
        if bt.ok:
            for j in range(cfg['tsan_plans']):
                p = gen_plan(ctx.rng('scn', idx, 'tsan', j), scs)
                if p is None:
                    continue
                p.freerun = 1
                r = common.run_one(bt.exe, p.text(), timeout=60)
                wr.evaluations += 1
                wr.stats['free-running-tsan-runs'] += 1
                if 'ThreadSanitizer' in r.stderr:
                    case = Case(ID, {('s%d' % i): sc for i, sc in enumerate(scs)}, p, meta={'scn': idx, 'kind': 'tsan', 'n': len(scs)})
                    wr.findings.append(Finding('tsan-race', tsan_summary(r.stderr), case, -1, 'scn %d tsan %d' % (idx, j)))
                    break
    return wr


def tsan_summary(stderr):
    lines = stderr.split('\n')
    for i, l in enumerate(lines):
        if 'WARNING: ThreadSanitizer' in l:
            return ' | '.join(x.strip() for x in lines[i:i + 6])[:500]
    return stderr[:300]


def evaluate(ctx, case):
    n = case.meta.get('n', 1)
    scs = [case.scs['s%d' % i] for i in range(n)]
    kind = case.meta.get('kind')
    if kind == 'link':
        b = ctx.build_multi(scs)
        if not b.ok and b.stage == 'link':
            return [model.Viol('link', -1, 'scanners with different prefixes do not link into one program: %s' % b.msg[-300:])], {}
        return [], {}
    if kind == 'tsan':
        bt = ctx.build_multi(scs, san=False, tsan=True) if n > 1 else ctx.build(scs[0], san=False, tsan=True)
        if not bt.ok:
            return [], {}
        r = common.run_one(bt.exe, case.plan.text(), timeout=ctx.run_timeout)
        if 'ThreadSanitizer' in r.stderr:
            # log order is not deterministic in this mode: give the gate a constant log
            r.raw = []
            r.status = 'tsan'
            return [model.Viol('tsan-race', -1, tsan_summary(r.stderr))], {'main': r}
        return [], {}
    b = ctx.build_multi(scs) if n > 1 else ctx.build(scs[0])
    if not b.ok:
        return [], {}
    set_tables_path(case.plan, b, scs)
    r = common.run_one(b.exe, case.plan.text(), timeout=ctx.run_timeout)
    viols, runs = judge(ctx, b, case.plan, r)
    return [v for v in viols if v.cls in CLASSES], runs


SHRINKABLE = True


def probes(ctx):
    from simlib import rx
    scs = []
    for i in range(2):
        sc = scenario.Scenario()
        sc.rules = [scenario.Rule(pat=rx.cls(rx.ALL), conds=[])]
        sc.flavor = 'c99'
        sc.c99_catchall = True
        sc.name = 'k%d' % i
        sc.prefix = 'kk%d_' % i
        scs.append(sc)
    case = Case(ID, {('s%d' % i): sc for i, sc in enumerate(scs)}, Plan(), meta={'kind': 'link', 'n': 2, 'probe': 'two-c99-scanners'})
    viols, _ = evaluate(ctx, case)
    return [Finding('link', v.detail, case, -1, 'probe two-c99-scanners') for v in viols if v.cls == 'link'][:1]

"""C13 - generated scanners are memory-safe and release everything they allocate."""
import collections

from simlib import common, scenario, workload, model
from simlib.engine import Case, Finding, WorkResult
from simlib.plan import Plan, Source, Op
from . import streambase as sb

ID = 'C13'
LEVEL = 'exploration'
RULE = ('the union of the C03-C12 workloads (permitted API histories only) on seeded scenarios in every table representation, reentrant and '
        'not, %array and %pointer, all 256 byte values, buffer sizes down to 1, with yylex_destroy and reuse of non-reentrant scanners. '
        'Monitors: ASan+UBSan on scanner and harness; allocation ledger (every pointer given to yyfree/yyrealloc is live and came from '
        'yyalloc/yyrealloc of the same instance, no double free, nothing live after the caller deleted its own buffers and called '
        'yylex_destroy); junk independence (the run repeated with a different fill pattern for fresh and grown memory gives the same '
        'tokens: a deterministic stand-in for MSan); a destroyed non-reentrant scanner behaves like a fresh process. '
        'distinct = event-log hash, non-trivial = >= 2 tokens and >= 3 allocator calls')
TIERS = {
    'quick': {'scenarios': 80, 'plans': 100, 'wall_cap': 600},
    'thorough': {'scenarios': 5000, 'plans': 150, 'wall_cap': 3300},
}
COMPONENTS = sb.COMPONENTS
ASSUMPTIONS = ['MSan is unusable with an uninstrumented libc: reads of uninitialised heap memory are detected only when they change behaviour under a different fill pattern',
               'new[] of the C++ lexer and buffers near INT_MAX are out of reach']
EXPECTED_PROBES = ['refill-with-partial-token', 'token-longer-than-buffer', 'start-stack-grown', 'legit-pushback-overflow']
CLASSES = {'sanitizer', 'crash', 'ledger', 'leak', 'junk-dependence', 'reuse', 'hang'}


def gen_scn(rng, idx=0):
    tables = scenario.TABLE_OPTS[idx % len(scenario.TABLE_OPTS)]
    return scenario.gen_scenario(rng, want={'flavors': ['nr', 'nr', 'r', 'r', 'c99', 'c99', 'cxx', 'cxx'], 'tables': tables})


def gen_plan(rng, sc):
    g = rng.choice(['stream', 'stream', 'eof', 'state', 'lineno', 'buffers', 'buffers'])
    if g == 'stream':
        p = workload.gen_stream_plan(rng, sc)
    elif g == 'eof':
        p = workload.gen_eof_plan(rng, sc)
    elif g == 'state':
        p = workload.gen_state_plan(rng, sc)
    elif g == 'buffers':
        p = workload.gen_buffer_plan(rng, sc)
    else:
        p = workload.gen_lineno_plan(rng, sc)
    it = p.insts[0]
    # destroy, then use the scanner again
    if rng.random() < 0.5:
        if not it.top or it.top[-1].name != 'DESTROY':
            it.top.append(Op('DESTROY'))
        extra = workload.gen_sources(rng, sc, 2, maxlen=40)
        p.sources.extend(extra)
        it.top.append(Op('INIT'))
        if rng.random() < 0.5:
            it.top.append(Op('SCAN_BYTES', d=workload.gen_input(rng, sc.alphabet, rng.randint(0, 20))))
        it.top.append(Op('LEX', a=5000))
        it.top.append(Op('DESTROY'))
    return p


def observable(res, after_seq=-1, with_lineno=True):
    out = []
    for ev in res.events:
        if ev.get('seq', 0) <= after_seq:
            continue
        k = ev['k']
        if k == 'T':
            out.append(('T', ev['rule'], ev.get('text'), ev['len'], ev['start'], ev['lineno'] if with_lineno else None, ev.get('bol')))
        elif k == 'E':
            out.append(('E', ev['rule'], ev['start']))
        elif k == 'L':
            out.append(('L', ev['ret'], ev['start'], ev.get('lineno') if with_lineno else None))
        elif k == 'V':
            out.append(('V',) + tuple(sorted((a, b) for a, b in ev.items() if a not in ('seq', 'inst', 'k', 'flags') and (with_lineno or a != 'lineno'))) + tuple(ev.get('flags', [])))
        elif k == 'F':
            out.append(('F', ev.get('msg')))
        elif k == 'D':
            out.append(('D', ev.get('live')))
    return out


def reuse_plan(p, res):
    """plan that runs only what follows the LAST yylex_destroy, in a fresh process"""
    dseq = [ev['seq'] for ev in res.events if ev['k'] == 'D']
    if not dseq:
        return None, -1
    # the last DESTROY that is followed by more work
    tops = p.insts[0].top
    idxs = [i for i, op in enumerate(tops) if op.name == 'DESTROY']
    cut = None
    for i in reversed(idxs):
        if i < len(tops) - 1:
            cut = i
            break
    if cut is None:
        return None, -1
    # which D event belongs to top op `cut`
    seq = None
    for ev in res.events:
        if ev['k'] == 'P' and ev.get('op') == 'DESTROY' and ev.get('idx') == cut:
            seq = ev['seq']
    if seq is None:
        return None, -1
    dev = [ev['seq'] for ev in res.events if ev['k'] == 'D' and ev['seq'] > seq]
    if not dev:
        return None, -1
    seq = dev[0]
    nact = sum(1 for ev in res.events if ev['k'] in ('T', 'E') and ev['seq'] < seq)
    used = set()
    for ev in res.events:
        if ev['seq'] >= seq:
            break
        if ev['k'] == 'R':
            used.add(ev.get('src'))
        if ev['k'] in ('P', 'O', 'W') and ev.get('op') in ('LEX', 'SET_YYIN', 'RESTART', 'NEWFILE', 'CREATE_BUF', 'PUSHNEW', 'SWITCHNEW') and ev.get('h', -1) >= 0:
            if ev.get('op') == 'RESTART' and ev.get('a', 0) & 1:
                continue
            used.add(ev['h'])
    k = (max(used) + 1) if used else 0
    q = p.copy()
    q.sources = q.sources[k:]
    it = q.insts[0]
    it.top = it.top[cut + 1:]
    it.acts = [(o - nact, op) for o, op in it.acts if o >= nact]
    widx = [ev.get('idx', -1) for ev in res.events if ev['k'] == 'W' and ev['seq'] < seq]
    if any(i < 0 for i in widx):
        it.wraps = []          # the list was exhausted before the destroy
    elif widx:
        it.wraps = it.wraps[max(widx) + 1:]
    it.faults = []
    return q, seq


def judge(ctx, sc, b, p, r, want_pairs=True):
    """all C13 verdicts for one plan; may run companion plans"""
    viols = []
    runs = {'main': r}
    m, vv = sb.judge_run(sc, p, r, use_matcher=False)
    for v in vv:
        if v.cls in CLASSES:
            viols.append(v)
    st = sb.status_class(r)
    if st in ('sanitizer', 'crash', 'hang') or not want_pairs:
        return viols, runs, m
    # junk independence
    q = p.copy()
    q.junk_pat = 2 if p.junk_pat != 2 else 3
    q.junk_seed = p.junk_seed + 1
    r2 = common.run_one(b.exe, q.text())
    runs['junk'] = r2
    if sb.status_class(r2) is None and observable(r) != observable(r2):
        a, c = observable(r), observable(r2)
        i = next((i for i in range(min(len(a), len(c))) if a[i] != c[i]), min(len(a), len(c)))
        viols.append(model.Viol('junk-dependence', -1, 'behaviour depends on the contents of freshly allocated memory: item %d is %s with fill pattern %d and %s with pattern %d' % (
            i, a[i] if i < len(a) else None, p.junk_pat, c[i] if i < len(c) else None, q.junk_pat)))
    # destroyed non-reentrant scanner == fresh process
    if sc.flavor == 'nr':
        rp, seq = reuse_plan(p, r)
        if rp is not None:
            r3 = common.run_one(b.exe, rp.text())
            runs['fresh'] = r3
            # without %option yylineno the variable belongs to the user:
            # flex never touches it, not even in yylex_destroy
            a = [x for x in observable(r, seq, sc.lineno)]
            c = observable(r3, -1, sc.lineno)
            if sb.status_class(r3) is None and a != c:
                i = next((i for i in range(min(len(a), len(c))) if a[i] != c[i]), min(len(a), len(c)))
                viols.append(model.Viol('reuse', -1, 'after yylex_destroy the scanner differs from a fresh one: item %d is %s, fresh process gives %s' % (
                    i, a[i] if i < len(a) else None, c[i] if i < len(c) else None)))
    return viols, runs, m


def work(ctx, idx):
    wr = WorkResult()
    cfg = TIERS[ctx.tier]
    rng = ctx.rng('scn', idx)
    sc = gen_scn(rng, idx)
    b = ctx.build(sc)
    if not b.ok:
        if b.stage == 'flex':
            wr.refused += 1
        else:
            wr.unbuildable += 1
            wr.notes.append('scn %d unbuildable (%s): %s' % (idx, b.stage, b.msg.strip()[:200]))
        return wr
    wr.scenarios = 1
    wr.stats['back-end:' + sc.flavor] += 1
    plans = [('p%d' % j, gen_plan(ctx.rng('scn', idx, 'plan', j), sc)) for j in range(cfg['plans'])]
    res = common.run_batch(b.exe, [(k, p.text()) for k, p in plans])
    per_class = collections.Counter()
    for j, (k, p) in enumerate(plans):
        r = res.get(k)
        if r is None:
            continue
        wr.evaluations += 1
        h = r.loghash()
        wr.hashes.add(h)
        # companion runs for a third of the plans (they cost two more executions)
        viols, runs, m = judge(ctx, sc, b, p, r, want_pairs=(j % 3 == 0))
        nalloc = sum(1 for ev in r.events if ev['k'] == 'A')
        if m.ntok >= 2 and nalloc >= 3:
            wr.nontrivial.add(h)
        sb.run_stats(r, p, wr.stats)
        if 'junk' in runs:
            wr.stats['junk-pairs'] += 1
        if 'fresh' in runs:
            wr.stats['reuse-pairs'] += 1
        wr.stats['probe:destroy-then-reuse'] += sum(1 for ev in r.events if ev['k'] == 'D') > 1
        for sk, sv in m.stats.items():
            if sk in sb.PROBE_STATS or sk.startswith('fatal:'):
                wr.stats['probe:' + sk] += sv
        wr.stats['table-mode:' + (sc.tables or 'default')] += 1
        if len(wr.samples) < 1 and m.ntok >= 3:
            wr.samples.append({'scenario': idx, 'flex_args': sc.flex_args(), 'flavor': sc.flavor,
                               'plan_text': p.text().split('\n')[:12], 'allocator_events': [l for l in r.raw if ' A ' in l][:8]})
        seen = set()
        for v in viols:
            if v.cls in seen:
                continue
            seen.add(v.cls)
            if per_class[v.cls] >= 2:
                continue
            per_class[v.cls] += 1
            wr.findings.append(Finding(v.cls, v.detail, Case(ID, sc, p, meta={'scn': idx}), v.seq, 'scn %d plan %s' % (idx, k)))
    return wr


def evaluate(ctx, case):
    sc = case.scs['main']
    b = ctx.build(sc)
    if not b.ok:
        return [], {}
    r = common.run_one(b.exe, case.plan.text(), timeout=ctx.run_timeout)
    viols, runs, m = judge(ctx, sc, b, case.plan, r, True)
    return viols, runs


def features(ctx, case, cls, detail):
    f = {}
    sc = case.scs['main']
    f['tables'] = sc.tables
    if cls == 'sanitizer':
        f['what'] = 'global-buffer-overflow' if 'global-buffer-overflow' in detail else ('heap-buffer-overflow' if 'heap-buffer-overflow' in detail else 'other')
    return f

"""C14 - allocation and read failures in the scanner are reported, never absorbed."""
import collections
import copy

from simlib import common, scenario, workload, model
from simlib.engine import Case, Finding, WorkResult
from simlib.plan import Plan, Source, Op, gen_input, gen_sched
from . import streambase as sb

ID = 'C14'
LEVEL = 'fault_enumeration'
RULE = ('for each sampled (scenario, plan) the fault-free run yields A allocator calls and R read calls; then EVERY allocator call k <= A is made '
        'to fail (one per run), and on the three input paths of the skeleton (fread and interactive getc through a simulated FILE*, and read(2) of %option read through a link-free redefinition of read/fileno) EVERY read index j <= R '
        'gets an EIO, and every j an EINTR followed by a successful retry.  Oracle: after a failed allocation the next thing the instance does '
        'is the documented error return (yylex_init/yylex_init_extra non-zero with errno ENOMEM, yytables_fload non-zero) or the fatal-error '
        'hook - no token, no further read or allocation, no sanitizer report; EIO -> fatal hook; EINTR -> the same tokens as the fault-free run. '
        'distinct = (scenario, plan, fault position), non-trivial = the fault actually fired')
TIERS = {
    'quick': {'scenarios': 24, 'plans': 5, 'wall_cap': 600},
    'thorough': {'scenarios': 2000, 'plans': 10, 'wall_cap': 3300},
}
COMPONENTS = sb.COMPONENTS
ASSUMPTIONS = ['EINTR/EIO are injected at the fopencookie read callback and at the redefined read() of -Cr scanners, not by real signals',
               'new[] failure in the C++ lexer is not routed through yyalloc and is out of reach']
EXPECTED_PROBES = []
CLASSES = {'absorbed-alloc-failure', 'wrong-error-return', 'eio-absorbed', 'eintr-changed-tokens', 'eintr-fatal-fread', 'eintr-fatal-getc', 'eintr-fatal-read',
           'sanitizer', 'crash', 'hang'}


def gen_alloc_plan(rng, sc):
    g = rng.choice(['stream', 'state', 'eof', 'buffers'])
    if g == 'stream':
        p = workload.gen_stream_plan(rng, sc, maxlen=40, density=rng.choice([0, 0.2]))
    elif g == 'state':
        p = workload.gen_state_plan(rng, sc)
        for s in p.sources:
            s.data = s.data[:40]
    elif g == 'eof':
        p = workload.gen_eof_plan(rng, sc)
    else:
        p = workload.gen_stream_plan(rng, sc, maxlen=30, density=0.0)
        it = p.insts[0]
        it.top = [op for op in it.top if op.name not in ('LEX', 'DESTROY')]
        for _ in range(rng.randint(2, 6)):
            k = rng.choice(['CREATE_BUF', 'PUSHNEW', 'SWITCHNEW', 'SCAN_BYTES', 'SCAN_STRING', 'SCAN_BUFFER', 'POP_BUF', 'LEX', 'PUSH_STATE'])
            if k.startswith('SCAN'):
                it.top.append(Op(k, d=gen_input(rng, [c for c in sc.alphabet if c] or [97], rng.randint(0, 8))))
            elif k == 'LEX':
                it.top.append(Op('LEX', a=rng.choice([1, 3, 50])))
            else:
                it.top.append(Op(k, a=rng.choice([1, 4, 16, 100])))
        it.top.append(Op('LEX', a=5000))
        it.top.append(Op('DESTROY'))
        for _ in range(4):
            p.sources.append(Source(gen_input(rng, sc.alphabet, rng.randint(0, 20)), gen_sched(rng)))
    return p


def alloc_points(res):
    """(top idx, nth) of every allocator call (alloc/realloc) of the clean run"""
    pts = []
    top = -1
    n = 0
    for ev in res.events:
        if ev['k'] == 'P':
            top = ev['idx']
            n = 0
        elif ev['k'] == 'A' and ev.get('what') in ('alloc', 'realloc'):
            n += 1
            pts.append((top, n))
    # several P events can share an idx (auto-deletes before DESTROY): keep unique
    out = []
    seen = set()
    for t in pts:
        if t not in seen:
            seen.add(t)
            out.append(t)
    return out


def judge_alloc(res):
    """returns (fired, Viol or None)"""
    evs = res.events
    i = next((k for k, ev in enumerate(evs) if ev['k'] == 'A' and 'FAIL' in ev.get('flags', [])), None)
    st = sb.status_class(res)
    if st == 'sanitizer':
        return i is not None, model.Viol('sanitizer', -1, sb.san_summary(res.stderr))
    if st in ('crash', 'hang', 'abnormal-exit'):
        return i is not None, model.Viol('crash' if st != 'hang' else 'hang', -1, 'process ended with %s after the injected failure' % res.status)
    if i is None:
        return False, None
    inst = evs[i]['inst']
    top = None
    for ev in evs[:i]:
        if ev['k'] == 'P' and ev['inst'] == inst:
            top = ev.get('op')
    for ev in evs[i + 1:]:
        if ev['inst'] != inst:
            continue
        k = ev['k']
        if k == 'F':
            return True, None
        if k == 'V' and ('init' in ev or 'fload' in ev):
            key = 'init' if 'init' in ev else 'fload'
            if ev[key] == 0:
                return True, model.Viol('wrong-error-return', ev['seq'], '%s returned 0 although an allocation it made failed' % key)
            return True, None
        if k == 'V' and 'errno' in ev:
            continue
        if k == 'A' and ev.get('what') == 'free':
            continue     # cleaning up on the way to the error is fine
        if k in ('Z', 'Q', 'K', 'S'):
            break
        return True, model.Viol('absorbed-alloc-failure', ev['seq'],
                                'after a failed allocation (during %s) the scanner carried on: next event is %s' % (top, ' '.join(str(x) for x in (k, ev.get('op', ''), ev.get('what', ''), ev.get('rule', '')))))
    # instance ended (Z) without fatal or error return
    return True, model.Viol('absorbed-alloc-failure', evs[i]['seq'], 'a failed allocation (during %s) was neither reported through the fatal-error hook nor through an error return' % top)


def tokens_of(res):
    out = []
    for ev in res.events:
        k = ev['k']
        if k == 'T':
            out.append(('T', ev['rule'], ev.get('text'), ev['len'], ev['start'], ev['lineno']))
        elif k == 'E':
            out.append(('E', ev['rule'], ev['start']))
        elif k == 'L':
            out.append(('L', ev['ret'], ev['start']))
        elif k == 'F':
            out.append(('F', ev.get('msg')))
        elif k == 'V' and 'input' in ev:
            out.append(('I', ev['input']))
    return out


def read_plan(rng, sc, interactive):
    p = Plan()
    p.junk_seed = rng.randint(1, 1 << 30)
    data = gen_input(rng, sc.alphabet, rng.randint(1, 40))
    p.sources = [Source(data, gen_sched(rng, rng.choice(['one', 'rand', 'mixed', 'all'])), kind='stdio', vbuf=0)]
    it = p.insts[0]
    it.top = [Op('INIT'), Op('SWITCHNEW', a=rng.choice([1, 2, 3, 8, 64, 16384]))]
    if interactive:
        it.top.append(Op('SET_INTERACTIVE', a=1))
    it.top += [Op('LEX', a=5000), Op('DESTROY')]
    it.acts = workload.text_ops(rng, sc, rng.choice([0, 0.2]), ['INPUT', 'LESS', 'BEGIN'])
    return p


def with_read_fault(p, clean, j, kind):
    """plan in which read number j (0-based, counting every read request of the clean run) is hit"""
    rets = [ev.get('ret', 0) for ev in clean.events if ev['k'] == 'R']
    q = p.copy()
    pre = [r for r in rets[:j] if isinstance(r, int) and r > 0]
    q.sources[0].sched = pre + [kind] + list(p.sources[0].sched)
    return q


def work(ctx, idx):
    wr = WorkResult()
    cfg = TIERS[ctx.tier]
    rng = ctx.rng('scn', idx)
    sc = scenario.gen_scenario(rng, want={'flavors': ['nr', 'nr', 'r', 'r', 'c99', 'c99', 'cxx', 'cxx']})
    b = ctx.build(sc)
    cxx = sc.flavor == 'cxx'       # the C++ lexer has no stdio input path: allocation failures only
    sc_s = copy.copy(sc)
    sc_s._matchers = {}
    sc_s.user_input = False
    bs = ctx.build(sc_s) if not cxx else b
    sc_r = copy.copy(sc_s)
    sc_r._matchers = {}
    sc_r.use_read = True          # %option read: yyread() is read(fileno(yyin), ...)
    br = ctx.build(sc_r) if not cxx else b
    if not b.ok or not bs.ok:
        if b.stage == 'flex' or bs.stage == 'flex':
            wr.refused += 1
        else:
            wr.unbuildable += 1
            wr.notes.append('scn %d unbuildable: %s' % (idx, (b.msg or bs.msg).strip()[:200]))
        return wr
    wr.scenarios = 1
    wr.stats['back-end:' + sc.flavor] += 1
    per_class = collections.Counter()

    def report(cls, detail, case, where, seq=-1):
        if per_class[cls] >= 2:
            return
        per_class[cls] += 1
        wr.findings.append(Finding(cls, detail, case, seq, where))

    for j in range(cfg['plans']):
        prng = ctx.rng('scn', idx, 'plan', j)
        # ---- allocation failures
        p = gen_alloc_plan(prng, sc)
        clean = common.run_one(b.exe, p.text())
        if sb.status_class(clean) is None:
            pts = alloc_points(clean)
            batch = []
            for (t, n) in pts:
                q = p.copy()
                q.insts[0].faults = [(t, n)]
                batch.append(('a%d_%d' % (t, n), q))
            res = common.run_batch(b.exe, [(k, q.text()) for k, q in batch]) if batch else {}
            for k, q in batch:
                r = res.get(k)
                if r is None:
                    continue
                wr.evaluations += 1
                fired, v = judge_alloc(r)
                if fired:
                    wr.stats['fault:alloc-failure'] += 1
                    wr.nontrivial.add((idx, j, k))
                    wr.hashes.add(r.loghash())
                    how = 'fatal' if any(ev['k'] == 'F' for ev in r.events) else 'error-return'
                    wr.stats['probe:alloc-failure-reported-by-' + how] += 1
                    for ev in r.events:
                        if ev['k'] == 'F':
                            wr.stats['probe:fatal:' + ev.get('msg', '')] += 1
                if v is not None and v.cls in CLASSES:
                    report(v.cls, v.detail, Case(ID, sc, q, meta={'scn': idx, 'kind': 'alloc'}), 'scn %d plan %d %s' % (idx, j, k), v.seq)
            if len(wr.samples) < 1 and pts:
                wr.samples.append({'scenario': idx, 'flex_args': sc.flex_args(), 'plan_text': p.text().split('\n')[:12],
                                   'allocation_points_enumerated': pts[:20]})
        # ---- read faults on the stdio paths
        for mode in (() if cxx else ('fread', 'getc', 'read')):
            interactive = mode == 'getc'
            if mode == 'read' and not br.ok:
                continue
            bx, scx = (br, sc_r) if mode == 'read' else (bs, sc_s)
            rp = read_plan(prng, scx, interactive)
            cl = common.run_one(bx.exe, rp.text())
            if sb.status_class(cl) is not None or any(ev['k'] == 'F' for ev in cl.events):
                continue
            nreads = sum(1 for ev in cl.events if ev['k'] == 'R')
            base = tokens_of(cl)
            batch = []
            for jj in range(nreads):
                batch.append(('x%d' % jj, with_read_fault(rp, cl, jj, 'X'), 'X'))
                batch.append(('i%d' % jj, with_read_fault(rp, cl, jj, 'I'), 'I'))
            res = common.run_batch(bx.exe, [(k, q.text()) for k, q, _ in batch]) if batch else {}
            for k, q, kind in batch:
                r = res.get(k)
                if r is None:
                    continue
                wr.evaluations += 1
                fired = any(ev['k'] == 'R' and ('EIO' in ev.get('flags', []) or 'EINTR' in ev.get('flags', [])) for ev in r.events)
                if not fired:
                    continue
                wr.nontrivial.add((idx, j, mode, k))
                wr.hashes.add(r.loghash())
                wr.stats['fault:' + ('EIO' if kind == 'X' else 'EINTR') + '-' + mode] += 1
                st = sb.status_class(r)
                case = Case(ID, scx, q, meta={'scn': idx, 'kind': 'read', 'interactive': interactive, 'mode': mode, 'clean': rp.to_json()})
                if st in ('sanitizer', 'crash', 'hang'):
                    report(st, sb.san_summary(r.stderr) if st == 'sanitizer' else 'process ended with %s' % r.status, case, 'scn %d %s' % (idx, k))
                    continue
                v = judge_read(kind, interactive, base, r, mode)
                if v is not None:
                    report(v.cls, v.detail, case, 'scn %d plan %d %s' % (idx, j, k), v.seq)
    return wr


def judge_read(kind, interactive, base, r, mode=None):
    toks = tokens_of(r)
    fat = [t for t in toks if t[0] == 'F']
    if kind == 'X':
        # everything before the fatal error must be what the clean run delivered
        if not fat:
            return model.Viol('eio-absorbed', -1, 'a read error (EIO) was not reported through the fatal-error hook')
        return None
    if fat:
        return model.Viol('eintr-fatal-read' if mode == 'read' else 'eintr-fatal-getc' if interactive else 'eintr-fatal-fread', -1,
                          'a read interrupted by a signal (EINTR) and then retried made the scanner stop with: %s' % fat[0][1])
    if toks != base:
        n = min(len(toks), len(base))
        i = next((i for i in range(n) if toks[i] != base[i]), n)
        return model.Viol('eintr-changed-tokens', -1, 'after an EINTR the run differs from the fault-free run at item %d: %s versus %s' % (
            i, toks[i] if i < len(toks) else None, base[i] if i < len(base) else None))
    return None


def evaluate(ctx, case):
    sc = case.scs['main']
    b = ctx.build(sc)
    if not b.ok:
        return [], {}
    r = common.run_one(b.exe, case.plan.text(), timeout=ctx.run_timeout)
    if case.meta.get('kind') == 'alloc':
        fired, v = judge_alloc(r)
        return ([v] if v is not None else []), {'main': r}
    clean_plan = Plan.from_json(case.meta['clean'])
    # keep the clean plan in step with what shrinking did to the faulted one
    clean_plan.sources[0].data = case.plan.sources[0].data
    clean_plan.insts[0].acts = case.plan.insts[0].acts
    clean_plan.insts[0].top = case.plan.insts[0].top
    cl = common.run_one(b.exe, clean_plan.text(), timeout=ctx.run_timeout)
    st = sb.status_class(r)
    if st in ('sanitizer', 'crash', 'hang'):
        return [model.Viol(st, -1, sb.san_summary(r.stderr))], {'main': r, 'clean': cl}
    kind = 'X' if 'X' in case.plan.sources[0].sched else 'I'
    fired = any(ev['k'] == 'R' and ('EIO' in ev.get('flags', []) or 'EINTR' in ev.get('flags', [])) for ev in r.events)
    if not fired or any(ev['k'] == 'F' for ev in cl.events):
        return [], {'main': r, 'clean': cl}
    v = judge_read(kind, case.meta.get('interactive'), tokens_of(cl), r, case.meta.get('mode'))
    return ([v] if v is not None else []), {'main': r, 'clean': cl}


def features(ctx, case, cls, detail):
    return {'interactive': bool(case.meta.get('interactive')), 'kind': case.meta.get('kind')}

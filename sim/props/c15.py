"""C15 - serialized tables round-trip and follow the documented file format."""
import collections
import copy
import itertools
import os

from simlib import rx, common, scenario, workload, model, tblfmt
from simlib.engine import Case, Finding, WorkResult
from simlib.plan import Plan, Source, Op, Inst
from . import streambase as sb

ID = 'C15'
LEVEL = 'fault_enumeration'
RULE = ('each seeded scenario (every table representation incl. -Cf/-CF, REJECT accepting lists, yylineno, -Ca) is built three times: with '
        'in-code tables, with --tables-file, and with --tables-file --tables-verify.  The tables file is handed to yytables_fload through a '
        'simulated FILE* (fopencookie with seek).  Enumerated faults: truncation at EVERY byte offset (files up to 4 KiB; 600 stratified '
        'offsets incl. every table boundary beyond), every single-bit flip of the magic number, a read error at 40 offsets, read chunking '
        '1/3/7 bytes.  Oracle: intact file -> fload returns 0 and the scanner\'s tokens equal the in-code twin\'s on every plan; truncated / '
        'bad-magic / failing file -> non-zero return or fatal hook, no sanitizer report, allocation ledger empty after yytables_destroy + '
        'yylex_destroy; the verify build reports success on the intact file and failure when one payload byte is changed; 2-3 '
        'differently-prefixed scanners find their set in a concatenation in every order; an independent parser written from the manual '
        'checks magic, th_hsize/th_ssize, ids, width flags, dimensions, big-endian integers and 64-bit padding of every file. '
        'distinct = (scenario, fault) pair, non-trivial = the fault fired (a read reached the damaged region)')
TIERS = {
    'quick': {'scenarios': 20, 'plans': 12, 'trunc_exhaustive': 4096, 'trunc_samples': 300, 'wall_cap': 600},
    'thorough': {'scenarios': 1200, 'plans': 40, 'trunc_exhaustive': 16384, 'trunc_samples': 2000, 'wall_cap': 3300},
}
COMPONENTS = dict(sb.COMPONENTS)
ASSUMPTIONS = ['bit flips outside the magic number are not promised to be detected by a non-verify load and are not injected there',
               'tables are loaded once per scanner (they are process-global), as the manual requires']
EXPECTED_PROBES = []
CLASSES = {'format', 'roundtrip', 'load-failed', 'trunc-accepted', 'magic-accepted', 'eio-accepted', 'verify-false-alarm', 'verify-missed',
           'concat', 'leak', 'ledger', 'sanitizer', 'crash', 'hang'}


def variants(sc):
    tw = copy.copy(sc)
    tw._matchers = {}
    tw.tables_file = False
    tw.tables_verify = False
    st = copy.copy(sc)
    st._matchers = {}
    st.tables_file = True
    st.tables_verify = False
    sv = copy.copy(sc)
    sv._matchers = {}
    sv.tables_file = True
    sv.tables_verify = True
    return tw, st, sv


def tables_path(b, sc):
    return os.path.join(os.path.dirname(b.c_path), sc.name + '.tables')


def with_tables(p, parts=('main',), **fault):
    """plan p run on the tables-file build: load right after INIT, unload before every DESTROY"""
    q = p.copy()
    t = {'parts': list(parts)}
    t.update(fault)
    q.tfiles = [t]
    for it in q.insts:
        top = []
        loaded = False
        for op in it.top:
            if op.name == 'DESTROY':
                top.append(Op('TABLES_DESTROY'))
                loaded = False
            top.append(op)
            if op.name == 'INIT' and not loaded:
                top.append(Op('TABLES_LOAD', a=0, b=fault.get('vbuf', 0)))
                loaded = True
        it.top = top
    return q


def load_only_plan(**fault):
    p = Plan()
    t = {'parts': ['main']}
    t.update({k: v for k, v in fault.items() if k != 'vbuf'})
    p.tfiles = [t]
    it = p.insts[0]
    it.top = [Op('INIT'), Op('TABLES_LOAD', a=0, b=fault.get('vbuf', 0)), Op('TABLES_DESTROY'), Op('DESTROY')]
    return p


def toks(res, inst=None):
    out = []
    for ev in res.events:
        if inst is not None and ev.get('inst') != inst:
            continue
        k = ev['k']
        if k == 'T':
            out.append(('T', ev['rule'], ev.get('text'), ev['len'], ev['start'], ev['lineno']))
        elif k == 'E':
            out.append(('E', ev['rule'], ev['start']))
        elif k == 'L':
            out.append(('L', ev['ret'], ev['start']))
        elif k == 'F':
            out.append(('F', ev.get('msg')))
        elif k == 'V' and ('input' in ev or 'less' in ev.get('flags', [])):
            out.append(('V', ev.get('input'), ev.get('text')))
    return out


def load_outcome(res):
    """('ok'|'error'|'fatal'|'sanitizer'|'crash'|'hang', detail, leak)"""
    st = sb.status_class(res)
    if st == 'sanitizer':
        return 'sanitizer', sb.san_summary(res.stderr), None
    if st in ('crash', 'abnormal-exit'):
        return 'crash', res.status, None
    if st == 'hang':
        return 'hang', '', None
    out = None
    leak = None
    for ev in res.events:
        if ev['k'] == 'V' and 'fload' in ev:
            out = ('ok', '') if ev['fload'] == 0 else ('error', 'fload=%d' % ev['fload'])
        elif ev['k'] == 'F' and out is None:
            out = ('fatal', ev.get('msg', ''))
        elif ev['k'] == 'D':
            leak = ev.get('live', 0)
        elif ev['k'] == 'X':
            return 'ledger', ev.get('msg', ''), None
    if out is None:
        out = ('none', 'no load attempted')
    return out[0], out[1], leak


def fault_fired(res):
    return any(ev['k'] == 'Y' for ev in res.events)


def trunc_offsets(sets, length, cfg, rng):
    if length <= cfg['trunc_exhaustive']:
        return list(range(length))
    pts = set([0, 1, 3, 4, 7, 8, 13, 14, 15, 16, length - 1, length - 2, length - 7, length - 8, length - 9])
    for s in sets:
        for t in s['tables']:
            for d in (-1, 0, 1, 11, 12, 13):
                pts.add(t['off'] + d)
            pts.add(t['data_off'] + t['data_len'])
            pts.add(t['data_off'] + t['data_len'] - 1)
        pts.add(s['off'] + s['hsize'])
        pts.add(s['off'] + s['hsize'] - 1)
    while len(pts) < cfg['trunc_samples']:
        pts.add(rng.randrange(length))
    return sorted(p for p in pts if 0 <= p < length)


# big scenarios: the aligned and full representations first (32-bit tables in memory, 16-bit in the file)
BIG_TABLES = ['-Caf', '-CaF', '-Ca', '-Cf', '-CF', '', '-Cem', '-Cfae', '-CFae', '-Cae', '-Caem', '-C', '-Ce', '-Cm', '-Cfe', '-CFe']


def work(ctx, idx):
    wr = WorkResult()
    cfg = TIERS[ctx.tier]
    rng = ctx.rng('scn', idx)
    if idx % 4 == 3:
        return work_concat(ctx, idx, wr)
    # every fourth scenario is big (more than 127 DFA states: serialized elements wider than a byte)
    # and cycles through the table representations
    big = idx % 4 == 1
    sc = scenario.gen_scenario(rng, forbid=('vtrail',), want={'big': True, 'tables': BIG_TABLES[(idx // 4) % len(BIG_TABLES)]} if big else None)
    if big:
        wr.stats['big-scenarios'] += 1
        if rng.random() < 0.5:
            # ... and with more than 127 equivalence classes: yy_ec / yy_meta then hold values that do not
            # fit a signed byte (one rule per byte value)
            for v in range(1, rng.randint(140, 220)):
                if v != 10:
                    sc.rules.append(scenario.Rule(pat=rx.lit(bytes([v])), conds=[]))
            if 'e' not in (sc.tables or '-Cem') and 'm' not in (sc.tables or '-Cem'):
                # yy_ec / yy_meta exist only with equivalence classes
                sc.tables = rng.choice(['', '-Cem', '-Ce', '-Cae', '-Caem'])
            wr.stats['big-scenarios-many-classes'] += 1
    if rng.random() < 0.3:
        sc.prefix = 'zz'
    tw, st, sv = variants(sc)
    btw, bst, bsv = ctx.build(tw), ctx.build(st), ctx.build(sv)
    if not btw.ok or not bst.ok or not bsv.ok:
        bad = [b for b in (btw, bst, bsv) if not b.ok][0]
        if bad.stage == 'flex':
            wr.refused += 1
        else:
            wr.unbuildable += 1
            wr.notes.append('scn %d unbuildable (%s): %s' % (idx, bad.stage, bad.msg.strip()[:200]))
        return wr
    wr.scenarios = 1
    tpath = tables_path(bst, st)
    vpath = tables_path(bsv, sv)
    with open(tpath, 'rb') as fh:
        data = fh.read()
    scs = {'main': sc}
    per_class = collections.Counter()

    def report(cls, detail, plan, meta, where):
        if per_class[cls] >= 2:
            return
        per_class[cls] += 1
        m = {'scn': idx}
        m.update(meta)
        wr.findings.append(Finding(cls, detail, Case(ID, scs, plan, meta=m), -1, where))

    # ---- the file format, by an independent parser
    sets, problems = tblfmt.parse(data)
    wr.evaluations += 1
    wr.stats['tables-file-bytes'] += len(data)
    wr.stats['table-mode:' + (sc.tables or 'default')] += 1
    want_name = (sc.prefix or 'yy') + 'tables'
    if not problems and (len(sets) != 1 or sets[0]['name'] != want_name):
        problems.append('expected exactly one set named %s, found %s' % (want_name, [s['name'] for s in sets]))
    if problems:
        report('format', '; '.join(problems)[:500], load_only_plan(), {'kind': 'format'}, 'scn %d' % idx)
    # ---- round trip: serialized == in-code, on every plan (and with chunked reads)
    plans = [('p%d' % j, workload.gen_stream_plan(ctx.rng('scn', idx, 'plan', j), sc, maxlen=60)) for j in range(cfg['plans'])]
    r_tw = common.run_batch(btw.exe, [(k, p.text()) for k, p in plans])
    tplans = []
    for j, (k, p) in enumerate(plans):
        q = with_tables(p, chunk=[0, 0, 1, 3, 7][j % 5], vbuf=[0, -1, 7][j % 3])
        q.tpaths = {'main': tpath}
        tplans.append((k, q))
    r_st = common.run_batch(bst.exe, [(k, q.text()) for k, q in tplans])
    for (k, p), (_, q) in zip(plans, tplans):
        a, b = r_tw.get(k), r_st.get(k)
        if a is None or b is None:
            continue
        wr.evaluations += 1
        wr.hashes.add(b.loghash())
        kind, detail, leak = load_outcome(b)
        wr.stats['fault:chunked-table-reads'] += 1 if q.tfiles[0].get('chunk') else 0
        if kind in ('sanitizer', 'crash', 'hang', 'ledger'):
            report(kind, detail, q, {'kind': 'roundtrip'}, 'scn %d %s' % (idx, k))
            continue
        if kind != 'ok':
            report('load-failed', 'yytables_fload failed on the intact tables file: %s %s' % (kind, detail), q, {'kind': 'roundtrip'}, 'scn %d %s' % (idx, k))
            continue
        if sb.status_class(a) is None and toks(a) != toks(b):
            x, y = toks(a), toks(b)
            i = next((i for i in range(min(len(x), len(y))) if x[i] != y[i]), min(len(x), len(y)))
            report('roundtrip', 'scanner with loaded tables differs from the in-code twin at item %d: %s versus %s' % (
                i, y[i] if i < len(y) else None, x[i] if i < len(x) else None), q, {'kind': 'roundtrip'}, 'scn %d %s' % (idx, k))
        if leak:
            report('leak', 'after yytables_destroy and yylex_destroy %d allocations are still live' % leak, q, {'kind': 'roundtrip'}, 'scn %d %s' % (idx, k))
        if sum(1 for ev in b.events if ev['k'] == 'T') >= 2:
            wr.nontrivial.add(('rt', idx, k))
    if len(wr.samples) < 1:
        wr.samples.append({'scenario': idx, 'flex_args': sc.flex_args(), 'tables_file_bytes': len(data),
                           'sets': [{'name': s['name'], 'hsize': s['hsize'], 'ssize': s['ssize'],
                                     'tables': [(tblfmt.IDS.get(t['id']), t['width'], t['hilen'], t['lolen']) for t in s['tables']]} for s in sets]})
    # ---- enumerated faults on the tables file
    faults = []
    for n in trunc_offsets(sets, len(data), cfg, rng):
        faults.append(('trunc%d' % n, {'trunc': n}, 'trunc'))
    for byte in range(4):
        for bit in range(8):
            faults.append(('magic%d_%d' % (byte, bit), {'flip': [(byte, 1 << bit)]}, 'magic'))
    for _ in range(40):
        faults.append(('eio%d' % len(faults), {'eio': rng.randrange(len(data))}, 'eio'))
    batch = []
    for name, f, kind in faults:
        q = load_only_plan(**f)
        q.tpaths = {'main': tpath}
        batch.append((name, q, kind))
    res = common.run_batch(bst.exe, [(k, q.text()) for k, q, _ in batch])
    for name, q, kind in batch:
        r = res.get(name)
        if r is None:
            continue
        wr.evaluations += 1
        out, detail, leak = load_outcome(r)
        wr.stats['fault:tables-' + kind] += 1
        wr.nontrivial.add((kind, idx, name))
        wr.stats['probe:load-outcome-' + out] += 1
        if out in ('sanitizer', 'crash', 'hang', 'ledger'):
            report(out, '%s under fault %s: %s' % (out, name, detail), q, {'kind': 'fault'}, 'scn %d %s' % (idx, name))
        elif out == 'ok':
            report({'trunc': 'trunc-accepted', 'magic': 'magic-accepted', 'eio': 'eio-accepted'}[kind],
                   'yytables_fload returned 0 on a tables file with fault %s (file length %d)' % (name, len(data)), q, {'kind': 'fault'}, 'scn %d %s' % (idx, name))
        elif leak:
            report('leak', 'after a failed load (%s), yytables_destroy and yylex_destroy leave %d allocations live' % (name, leak), q, {'kind': 'fault'}, 'scn %d %s' % (idx, name))
    # ---- the verify build
    q = load_only_plan()
    q.tpaths = {'main': vpath}
    r = common.run_one(bsv.exe, q.text())
    wr.evaluations += 1
    out, detail, leak = load_outcome(r)
    if out in ('sanitizer', 'crash', 'hang'):
        report(out, 'verify build: ' + detail, q, {'kind': 'verify'}, 'scn %d verify' % idx)
    elif out != 'ok':
        report('verify-false-alarm', 'tables-verify reports a mismatch between the file and the in-code tables it was generated with: %s %s' % (out, detail), q, {'kind': 'verify'}, 'scn %d verify' % idx)
    with open(vpath, 'rb') as fh:
        vdata = fh.read()
    vsets, _ = tblfmt.parse(vdata)
    batch = []
    for s in vsets:
        for t in s['tables']:
            if t['data_len'] == 0:
                continue
            for _ in range(3):
                off = t['data_off'] + rng.randrange(t['data_len'])
                q = load_only_plan(flip=[(off, rng.randint(1, 255))])
                q.tpaths = {'main': vpath}
                batch.append(('v%d' % len(batch), q, tblfmt.IDS.get(t['id'])))
    res = common.run_batch(bsv.exe, [(k, q.text()) for k, q, _ in batch]) if batch else {}
    for k, q, tname in batch:
        r = res.get(k)
        if r is None:
            continue
        wr.evaluations += 1
        wr.stats['fault:tables-payload-byte-changed'] += 1
        wr.nontrivial.add(('verify', idx, k))
        out, detail, leak = load_outcome(r)
        if out in ('sanitizer', 'crash', 'hang'):
            report(out, 'verify build with a changed payload byte in %s: %s' % (tname, detail), q, {'kind': 'verify'}, 'scn %d %s' % (idx, k))
        elif out == 'ok':
            report('verify-missed', 'tables-verify reports success although a payload byte of table %s differs from the in-code tables' % tname, q, {'kind': 'verify'}, 'scn %d %s' % (idx, k))
    return wr


def concat_load_results(r):
    """per TABLES_LOAD attempt: (instance, 'ok' | 'error' | 'fatal:<msg>' | 'none')"""
    out = []
    cur = {}
    for ev in r.events:
        i = ev.get('inst')
        if ev['k'] == 'P':
            if i in cur:
                out.append((i, cur.pop(i) or 'none'))
            if ev.get('op') == 'TABLES_LOAD':
                cur[i] = None
        elif i in cur and cur[i] is None:
            if ev['k'] == 'V' and 'fload' in ev:
                cur[i] = 'ok' if ev['fload'] == 0 else 'error'
            elif ev['k'] == 'F':
                cur[i] = 'fatal:' + ev.get('msg', '')
    for i, v in cur.items():
        out.append((i, v or 'none'))
    return out


def work_concat(ctx, idx, wr):
    rng = ctx.rng('scn', idx)
    n = rng.choice([2, 2, 3])
    scs = []
    for i in range(n):
        sc = scenario.gen_scenario(rng, forbid=('vtrail',), want={'flavor': rng.choice(['nr', 'r'])})
        sc.name = 'c%d' % i
        sc.prefix = ['aa', 'bbq', 'c_'][i]
        sc.tables_file = True
        scs.append(sc)
    b = ctx.build_multi(scs)
    if not b.ok:
        if b.stage == 'flex':
            wr.refused += 1
        elif b.stage == 'link':
            wr.findings.append(Finding('concat', 'tables-file scanners with different prefixes do not link: %s' % b.msg[-300:],
                                       Case(ID, {('s%d' % i): s for i, s in enumerate(scs)}, Plan(), meta={'kind': 'concat', 'n': n}), -1, 'scn %d' % idx))
        else:
            wr.unbuildable += 1
            wr.notes.append('scn %d unbuildable (%s): %s' % (idx, b.stage, b.msg.strip()[:200]))
        return wr
    wr.scenarios = 1
    base = os.path.dirname(os.path.dirname(b.c_path))
    paths = {}
    for i, sc in enumerate(scs):
        # build_multi names the build directories m<key>_<i>
        d = os.path.dirname(b.c_path)[:-1] + str(i) if os.path.dirname(b.c_path).endswith(str(n - 1)) else None
        paths['s%d' % i] = os.path.join(d, sc.name + '.tables')
    subplans = []
    for i, sc in enumerate(scs):
        sp = workload.gen_stream_plan(rng, sc, maxlen=40)
        subplans.append(sp)

    def merged(parts):
        p = Plan()
        p.junk_seed = 7
        p.insts = []
        p.sources = []
        p.tfiles = [{'parts': list(parts)}]
        p.tpaths = dict(paths)
        for i, sp in enumerate(subplans):
            it = copy.deepcopy(sp.insts[0])
            it.scn = scs[i].name
            top = []
            for op in it.top:
                if op.name == 'DESTROY':
                    top.append(Op('TABLES_DESTROY'))
                top.append(op)
                if op.name == 'INIT':
                    top.append(Op('TABLES_LOAD', a=0))
            it.top = top
            for s in sp.sources:
                s2 = copy.deepcopy(s)
                s2.inst = i
                p.sources.append(s2)
            p.insts.append(it)
        p.sched = [0]
        return p
    names = ['s%d' % i for i in range(n)]
    runs = []
    for order in itertools.permutations(names):
        runs.append(('+'.join(order), merged(order)))
    # baseline: every scanner alone with its own file - one run per scanner
    res = common.run_batch(b.exe, [(k, p.text()) for k, p in runs])
    ref = None
    for k, p in runs:
        r = res.get(k)
        if r is None:
            continue
        wr.evaluations += 1
        wr.stats['fault:tables-concatenation-order'] += 1
        wr.nontrivial.add(('concat', idx, k))
        case = Case(ID, {('s%d' % i): s for i, s in enumerate(scs)}, p, meta={'kind': 'concat', 'n': n, 'order': k})
        st = sb.status_class(r)
        if st in ('sanitizer', 'crash', 'hang'):
            wr.findings.append(Finding(st, 'concatenation %s: %s' % (k, sb.san_summary(r.stderr) if st == 'sanitizer' else r.status), case, -1, 'scn %d %s' % (idx, k)))
            break
        loads = concat_load_results(r)
        if any(v != 'ok' for _, v in loads):
            wr.findings.append(Finding('concat', 'in concatenation order %s a scanner did not find its table set by name: %s' % (k, loads), case, -1, 'scn %d %s' % (idx, k)))
            break
        obs = [toks(r, i) for i in range(n)]
        if ref is None:
            ref = obs
        elif obs != ref:
            wr.findings.append(Finding('concat', 'scanners behave differently when the sets are concatenated in order %s' % k, case, -1, 'scn %d %s' % (idx, k)))
            break
    return wr


def evaluate(ctx, case):
    kind = case.meta.get('kind')
    if kind == 'concat':
        n = case.meta['n']
        scs = [case.scs['s%d' % i] for i in range(n)]
        b = ctx.build_multi(scs)
        if not b.ok:
            if b.stage == 'link':
                return [model.Viol('concat', -1, 'tables-file scanners with different prefixes do not link')], {}
            return [], {}
        d0 = os.path.dirname(b.c_path)
        p = case.plan
        p.tpaths = {('s%d' % i): os.path.join(d0[:-1] + str(i), scs[i].name + '.tables') for i in range(n)}
        r = common.run_one(b.exe, p.text(), timeout=ctx.run_timeout)
        st = sb.status_class(r)
        if st in ('sanitizer', 'crash', 'hang'):
            return [model.Viol(st, -1, sb.san_summary(r.stderr))], {'main': r}
        loads = concat_load_results(r)
        if any(v != 'ok' for _, v in loads):
            return [model.Viol('concat', -1, 'a scanner did not find its table set by name: %s' % loads)], {'main': r}
        return [], {'main': r}
    sc = case.scs['main']
    tw, st, sv = variants(sc)
    use = sv if kind == 'verify' else st
    b = ctx.build(use)
    if not b.ok:
        return [], {}
    tpath = tables_path(b, use)
    p = case.plan
    p.tpaths = {'main': tpath}
    if kind == 'format':
        with open(tpath, 'rb') as fh:
            sets, problems = tblfmt.parse(fh.read())
        want_name = (sc.prefix or 'yy') + 'tables'
        if not problems and (len(sets) != 1 or sets[0]['name'] != want_name):
            problems.append('expected exactly one set named %s' % want_name)
        return ([model.Viol('format', -1, '; '.join(problems)[:500])] if problems else []), {}
    r = common.run_one(b.exe, p.text(), timeout=ctx.run_timeout)
    out, detail, leak = load_outcome(r)
    runs = {'main': r}
    viols = []
    if out in ('sanitizer', 'crash', 'hang', 'ledger'):
        return [model.Viol(out, -1, detail)], runs
    faulted = any(t.get('trunc') is not None or t.get('flip') or t.get('eio') is not None for t in p.tfiles)
    if kind == 'verify':
        if faulted and out == 'ok':
            viols.append(model.Viol('verify-missed', -1, 'tables-verify reports success although a payload byte differs'))
        if not faulted and out != 'ok':
            viols.append(model.Viol('verify-false-alarm', -1, 'tables-verify fails on the file it was generated with: %s %s' % (out, detail)))
        return viols, runs
    if kind == 'fault':
        t = p.tfiles[0]
        if out == 'ok' and faulted:
            cls = 'trunc-accepted' if t.get('trunc') is not None else ('magic-accepted' if t.get('flip') else 'eio-accepted')
            viols.append(model.Viol(cls, -1, 'yytables_fload returned 0 on a damaged tables file'))
        elif leak:
            viols.append(model.Viol('leak', -1, 'after a failed load, yytables_destroy and yylex_destroy leave %d allocations live' % leak))
        return viols, runs
    # round trip
    if out != 'ok':
        return [model.Viol('load-failed', -1, 'yytables_fload failed on the intact tables file: %s %s' % (out, detail))], runs
    btw = ctx.build(tw)
    if btw.ok:
        base = p.copy()
        base.tfiles = []
        for it in base.insts:
            it.top = [op for op in it.top if op.name not in ('TABLES_LOAD', 'TABLES_DESTROY')]
        a = common.run_one(btw.exe, base.text(), timeout=ctx.run_timeout)
        runs['twin'] = a
        if sb.status_class(a) is None and toks(a) != toks(r):
            viols.append(model.Viol('roundtrip', -1, 'scanner with loaded tables differs from the in-code twin'))
    if leak:
        viols.append(model.Viol('leak', -1, 'after yytables_destroy and yylex_destroy %d allocations are still live' % leak))
    return viols, runs


SHRINK_BUDGET = 120

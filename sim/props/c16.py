"""C16: flex is robust on arbitrary input files and honest about its exit status.

World P check: runs the real flex process tree (main -> tee_header -> m4 ->
fix_linedirs, header branch, tables and backup writers) built with ASan+UBSan
on the repository's .l files and seeded mutations of them, and injects one
output fault at a time (byte-exact size limits, /dev/full, unusable
directories, vanishing stdout reader, failing m4)."""
from __future__ import annotations
import hashlib
import os
import re

from simlib import common
from worldp import corpus as C
from worldp import driver, runner
from worldp.driver import TaskResult

ID = 'C16'
LEVEL = 'fault_enumeration'

TIERS = {
    # robust: tasks x (1 original + mutants) fault-free runs; fault: cases, each enumerates every fault on every output
    'quick': {'robust_tasks': 96, 'mutants': 24, 'fault_cases': 64, 'random_limits': 2, 'edge_limits': 4},
    'thorough': {'robust_tasks': 2400, 'mutants': 30, 'fault_cases': 520, 'random_limits': 4, 'edge_limits': 24},
}

RULE = ('Inputs: every distinct .l/.lex file of /repo/tests, /repo/src/scan.l and /repo/examples, and 1-3 seeded mutations of them '
        '(byte/line deletion, duplication, flips, truncation, unbalanced braces/quotes/brackets, random %option lines, spliced files, '
        'garbage, names and lines of 2 KB..400 KB, up to 9000 rules / 3000 start conditions, nesting depth up to 30000) x an option set '
        'drawn from a pool of about 65 x an output routing (-o/-t/-t>file/lex.yy.c, --header-file, --tables-file, -b/--backup-file). '
        'Robustness cases run fault-free under an ASan+UBSan flex. Fault cases take a command whose fault-free run succeeds and enumerate, '
        'for each requested output file F: RLIMIT_FSIZE=N with SIGXFSZ ignored for N in {0,1,4095,4096,4097,|F|-1,|F|,|F|+1, every N within 4 (quick) / 24 (thorough) bytes of either end, the last multiples of 4096, seeded random} with the '
        'other outputs routed so that only F can exceed N, F=/dev/full, F in a missing / read-only directory, below a regular file, F a '
        'directory; for the scanner on stdout a reader that closes after N bytes (SIGPIPE default and ignored); M4=stub that exits 1 or is '
        'killed after N output bytes in the scanner or header branch, or does not exist. A case is counted as non-trivial only if the fault '
        'demonstrably fired (fault-free size of F > N, the path was opened by a successful fault-free run, the stub recorded its invocation, '
        'fault-free stdout > N + pipe capacity) or, for a mutated input, if flex\'s observable behaviour differs from that on the unmutated '
        'file; distinct = distinct (input sha, argv, fault) triples.')

COMPONENTS = {
    'real': ['flex main process (ASan+UBSan build of the working tree)', 'filter_tee_header / filter_fix_linedirs child processes',
             'GNU m4 (system binary)', 'kernel file, pipe and rlimit semantics (tmpfs under /dev/shm, /dev/full)',
             'tables writer', 'backup writer'],
    'stubbed': ['m4 only in the M4-failure faults: a C stub that runs the real m4 and cuts its output after N bytes',
                'consumer of flex -t: the harness reads stdout and closes it after N bytes',
                'disk full: modelled by RLIMIT_FSIZE with SIGXFSZ ignored (short write, then EFBIG) and by /dev/full (ENOSPC)'],
}

ASSUMPTIONS = [
    'A write failure is modelled as EFBIG after exactly N bytes (RLIMIT_FSIZE), ENOSPC from byte 0 (/dev/full), ENOENT/ENOTDIR/EISDIR/EACCES at open; EIO and late ENOSPC on a real file system are assumed to take the same error paths in stdio.',
    'Partially written output files and stdout of a run that ends non-zero are not compared between runs (several processes race while the pipeline collapses); for status 0 every file and stdout are compared byte for byte. Of stderr only the sorted set of messages written by flex itself is compared: m4 writes its messages in pieces and the two m4 processes of a --header-file run interleave them.',
    'Being killed by SIGPIPE (flex main or a child, after a reader or a pipeline neighbour vanished) counts as "not status 0" and needs no diagnostic; SIGSEGV/SIGABRT/SIGBUS/SIGILL/SIGFPE never do.',
    'When m4 itself dies the property only demands a non-zero status (m4 is outside the quantifier).',
    'Exceeding an internal limit must give a non-zero exit and a diagnostic of the shape "flex: ..." or "file:line: ..."; a file:line prefix is not demanded for "flex: input rules are too complicated" style messages.',
    'A run that exceeds the 10 s cap is re-run once on the plain build with a 300 s cap and a 2 GB address-space limit (with -Ca the NFA size limit is 2*10^9 states, so the running time of flex is bounded by memory only); only if it still does not finish is it a hang (legitimate super-linear DFA construction is slow, not a hang).',
    'Generated C is not compiled here (another property).',
    'The unprivileged-user fault (read-only directory) needs root to drop privileges; otherwise the directory mode alone is relied on.',
]

IN_RE = re.compile(r'^' + re.escape(runner.IN_NAME) + r':(\d+): ')
SHAPE_RE = re.compile(r'^(' + re.escape(runner.IN_NAME) + r':\d+: |flex: |\S*m4:)')
SHAPE_ANY = re.compile(r'(' + re.escape(runner.IN_NAME) + r':\d+: |flex: |m4:)')     # -T interleaves its trace with the diagnostics
SAN_SUMMARY = re.compile(r'(SUMMARY: \w+: [\w-]+|runtime error: [^\n]{0,80}|AddressSanitizer: [\w-]+)')
UB_RE = re.compile(r'runtime error: ([a-zA-Z][a-zA-Z -]*[a-zA-Z])')
ASAN_RE = re.compile(r'AddressSanitizer: ([\w-]+)')
FRAME_RE = re.compile(r'#\d+ 0x[0-9a-f]+ in (\w+) \S*?([\w.-]+):\d+')


def san_info(err):
    """(kind, site) of the first sanitizer report: e.g. ('signed integer overflow', 'epsclosure')"""
    m = UB_RE.search(err)
    a = ASAN_RE.search(err)
    if a and (not m or a.start() < m.start()):
        kind, pos = a.group(1), a.end()
    elif m:
        kind, pos = m.group(1), m.end()
    else:
        return 'exit77', '?'
    site = '?'
    for f in FRAME_RE.finditer(err, pos):
        if not f.group(1).startswith('__') and 'sanitizer' not in f.group(2) and 'interceptor' not in f.group(1).lower():
            site = f.group(1)
            break
    return kind, site


PIPE_CAP = 4096
LONG_TIMEOUT = 300.0
CONFIRM_AS_MB = 2048


def _flex_for(env):
    return env.flex_san or env.flex


def _is_san(env):
    return env.flex_san is not None


# ------------------------------------------------------------------ oracle
def fired(cmd, fault, o, base):
    """did the injected fault demonstrably strike?"""
    k = fault['kind']
    if base is None or base['status'] != 0:
        return False
    if k == 'fsize':
        st = base['files'].get(fault['file'])
        return bool(st and st.get('kind') == 'file' and st['len'] > fault['n'])
    if k in runner.PATH_FAULTS:
        if fault['file'] == 'scanner' and cmd['outs'].get('scanner') == 'stdout':
            return base['stdout_len'] > 0
        st = base['files'].get(fault['file'])
        return bool(st and st.get('kind') == 'file' and st['len'] > 0)
    if k == 'reader':
        return base['stdout_len'] > fault['n'] + o.get('pipe_cap', 65536)
    if k == 'm4':
        if fault['mode'] == 'missing':
            return True
        return any(i['failed'] for i in o.get('m4_invocations', []))
    return False


def phase_of(fault):
    if not fault:
        return 'none'
    k = fault['kind']
    if k in ('fsize', 'devfull', 'reader'):
        return 'write'
    if k == 'm4':
        return 'm4'
    return 'open'


def diag_lines(o):
    return [l for l in o['stderr'].split('\n') if l.strip()]


def judge(cmd, fault, o, base):
    """returns list of (class, detail, feats)"""
    out = []
    st = o['status']
    where = runner.status_str(o)
    if o['timeout']:
        return [('hang', 'no termination within the time cap', {})]
    if runner.crashed(o):
        out.append(('crash', '%s; stderr: %s' % (where, o['stderr'][-300:]), {'signal': where}))
    if o['san']:
        kind, site = san_info(o['stderr'])
        m = SAN_SUMMARY.search(o['stderr'])
        out.append(('sanitizer', '%s; %s in %s; %s' % (where, kind, site, (m.group(1) if m else o['stderr'][:200])),
                    {'kind': kind, 'site': site}))
    if out:
        return out
    dl = diag_lines(o)
    nlines = cmd['input'].count(b'\n') + 1
    for l in dl:
        m = IN_RE.match(l)
        if m and not (1 <= int(m.group(1)) <= nlines + 1):
            out.append(('bad-linenum', 'diagnostic names line %s of a %d-line file: %s' % (m.group(1), nlines, l[:200]), {}))
            break
    if fault is None:
        exp = cmd.get('expect')
        if exp == 'accept' and st != 0:
            out.append(('limit-boundary', 'input within the declared limit refused: %s; %r' % (where, (dl or [''])[0][:160]), {'expect': exp}))
        elif exp and exp.startswith('refuse:'):
            if st == 0:
                out.append(('limit-boundary', 'input beyond the declared internal limit accepted with status 0 (expected a "%s" diagnostic)' % exp[7:], {'expect': exp}))
            elif not any(exp[7:] in l for l in dl):
                out.append(('limit-boundary', 'input beyond the declared limit refused, but not with a "%s" diagnostic: %r' % (exp[7:], (dl or [''])[0][:160]), {'expect': exp}))
        if st == 0:
            for w in runner.requested(cmd):
                if w == 'scanner' and cmd['outs'].get('scanner') == 'stdout':
                    if o['stdout_len'] == 0:
                        out.append(('exit0-missing-output', 'status 0 but nothing was written to stdout', {'file': 'scanner'}))
                    continue
                fs = o['files'].get(w, {})
                if fs.get('kind') == 'missing' and (C.REDIRECTS[w].search(cmd['input']) or (w == 'scanner' and any(x.startswith('-P') for x in cmd['opts']))):
                    continue      # the input file itself names another output file
                if fs.get('kind') != 'file' or fs.get('len', 0) == 0:
                    out.append(('exit0-missing-output', 'status 0 but the %s file is %s' % (w, fs.get('kind') if fs.get('kind') != 'file' else 'empty'), {'file': w}))
        else:
            if not dl:
                out.append(('fail-silent', '%s without any diagnostic on stderr' % where, {'phase': 'none'}))
            elif st > 0 and not any(SHAPE_RE.match(l) for l in dl) and not ('-T' in cmd['opts'] and any(SHAPE_ANY.search(l) for l in dl)):
                out.append(('fail-unshaped', '%s but no stderr line has the shape file:line: or flex: -- %r' % (where, dl[0][:200]),
                            {'message': re.sub(r'\d+', 'N', dl[0])[:60]}))
        return out
    # ---- a fault was injected
    f = fired(cmd, fault, o, base)
    feats = {'file': fault.get('file', 'scanner' if fault['kind'] == 'reader' else 'm4'), 'fault': fault['kind'], 'phase': phase_of(fault)}
    if fault['kind'] == 'm4':
        feats['branch'] = fault.get('branch', 'both')
        feats['mode'] = fault['mode']
    if f:
        if st == 0:
            cls = 'exit0-m4-dead' if fault['kind'] == 'm4' else 'exit0-incomplete'
            fs = o['files'].get(fault.get('file'), {})
            out.append((cls, 'status 0 although %s; %s file now: %s; stderr: %r' % (
                runner.describe_fault(fault), feats['file'],
                ('%d of %d bytes' % (fs.get('len', 0), base['files'][fault['file']]['len'])) if fs.get('kind') == 'file' and fault.get('file') in base['files'] else fs.get('kind', 'n/a'),
                o['stderr'][:200]), feats))
        elif st > 0 and not dl:
            needs = fault['kind'] in ('fsize',) + runner.PATH_FAULTS or (fault['kind'] == 'reader' and fault.get('sigpipe') == 'ignore')
            if needs:
                out.append(('fail-silent', '%s without any diagnostic although %s' % (where, runner.describe_fault(fault)), feats))
    elif fault['kind'] == 'reader' and fault['n'] < base['stdout_len']:
        pass        # the reader left early but the pipe may have swallowed the rest: either outcome is legitimate
    else:
        if base is not None and runner.fingerprint(o) != runner.fingerprint(base):
            out.append(('unfired-differs', 'the fault could not strike (%s) yet the outcome differs from the fault-free run: %s vs %s' % (
                runner.describe_fault(fault), runner.fingerprint(o), runner.fingerprint(base)), feats))
    return out


def gate_key(o, cls):
    if cls in ('crash', 'sanitizer', 'hang'):
        return '%s|%s' % ('timeout' if o['timeout'] else ('signal' if (o['status'] or 0) < 0 else 'exit'), '/'.join(san_info(o['stderr'])) if o['san'] else '')
    k = '%s|%s' % (runner.status_str(o), o['stderr_sha'][:12])
    if o['status'] == 0:
        k += '|' + o['stdout_sha'] + '|' + ';'.join('%s=%s:%s' % (w, s.get('kind'), s.get('sha', '-')) for w, s in sorted(o['files'].items()))
    return k


# ------------------------------------------------------------------ running
def _exec(env, rundir, cmd, fault, timeout=None):
    return runner.run_flex(_flex_for(env), rundir, cmd, fault, tools=env.tools, san=_is_san(env), timeout=timeout)


def run_judged(env, rundir, cmd, fault, base, res=None):
    """run + hang confirmation + judge.  returns (outcome, verdicts)"""
    o = _exec(env, rundir, cmd, fault)
    if o['timeout']:
        # slow or hung?  once more with a long cap on the faster binary
        o2 = runner.run_flex(env.flex or _flex_for(env), rundir, cmd, fault, tools=env.tools,
                             san=(env.flex is None and _is_san(env)), timeout=LONG_TIMEOUT, as_limit_mb=CONFIRM_AS_MB)
        if res is not None:
            res.stats['slow-rerun'] += 1
            res.notes.append('slow (%.0fs on the plain build, %s): %s; input %d bytes, long lines %s' % (
                o2['wall'], runner.status_str(o2), ' '.join(runner.argv_of(cmd)), len(cmd['input']),
                sorted(set(len(l) for l in cmd['input'].split(b'\n') if len(l) > 1000))[:4]))
        if not o2['timeout']:
            if res is not None:
                res.stats['slow-but-terminating'] += 1
            return o2, [v for v in judge(cmd, fault, o2, base) if v[0] not in ('unfired-differs',)]
    return o, judge(cmd, fault, o, base)


def mk_viol(cls, detail, feats, cmd, fault, o, where, mutators=None, origin=None):
    return {'class': cls, 'detail': detail, 'feats': feats, 'cmd': cmd, 'fault': fault, 'where': where,
            'mutators': mutators or [], 'origin': origin, 'gate_key': gate_key(o, cls)}


def cmd_key(cmd):
    return hashlib.sha1(cmd['input']).hexdigest()[:16] + ' ' + ' '.join(runner.argv_of(cmd)) + ' [' + cmd['outs'].get('scanner', 'file') + ']'


def outs_for_fsize(outs, base, target, n):
    """route the other outputs so that only `target` can exceed n: the scanner
    goes to a pipe, other regular files are kept only if they fit into n"""
    o = dict(outs)
    if target != 'scanner':
        o['scanner'] = 'stdout'
    for w in ('header', 'tables', 'backup'):
        if w == target:
            continue
        st = base['files'].get(w)
        if st is None:
            continue
        if st.get('kind') != 'file' or st['len'] > n:
            o[w] = '' if w == 'backup' else False
    return o


def limits_for(rng, size, nrandom, edge=0):
    s = {0, 1, 4095, 4096, 4097, size - 1, size, size + 1}
    for d in range(2, edge + 2):        # every byte near both ends: headers, trailers, the last flush
        s.add(d)
        s.add(size - d)
    for _ in range(nrandom):
        if size > 4:
            s.add(rng.randrange(2, size - 1))
    # multiples of the stdio buffer close to the end: the last flush is the interesting one
    if size > 4096:
        s.add((size - 1) // 4096 * 4096)
        s.add((size - 1) // 4096 * 4096 + 1)
    return sorted(x for x in s if x >= 0)


# ------------------------------------------------------------------ tasks
_CORPUS = None


def corpus():
    global _CORPUS
    if _CORPUS is None:
        c = C.load_corpus()
        _CORPUS = (c, C.families(c))
    return _CORPUS


_MAX_RULE = None


def max_rule():
    """the rule-count limit the working tree declares (flexdef.h: MAX_RULE = YY_TRAILING_MASK - 1)"""
    global _MAX_RULE
    if _MAX_RULE is None:
        txt = open(os.path.join(common.REPO, 'src', 'flexdef.h'), errors='replace').read()
        m = re.search(r'#define\s+YY_TRAILING_MASK\s+(0x[0-9a-fA-F]+|\d+)', txt)
        r = re.search(r'#define\s+MAX_RULE\s+\(YY_TRAILING_MASK\s*-\s*1\)', txt)
        _MAX_RULE = (int(m.group(1), 0) - 1) if (m and r) else 0
    return _MAX_RULE


def rule_limit_sweep():
    """total rule counts (explicit rules + the default rule) on both sides of the declared limit: at or
    below it flex must accept, above it flex must refuse and say so.  -Ca lifts the NFA-size limit, which
    would otherwise be reached first."""
    lim = max_rule()
    out = []
    if not lim:
        return out
    for total in list(range(lim - 2, lim + 13)) + [lim + 99, lim + 100, lim + 101, lim + 250]:
        n = total - 1
        data = b'%%\n' + b''.join(b'k%05d ;\n' % i for i in range(n))
        out.append(('rule-limit-%+d' % (total - lim), data, ['-Ca'], 'accept' if total <= lim else 'refuse:too many rules'))
    return out


def directed_inputs(thorough=False):
    """hand-written inputs that drive flex into each internal limit (independent of the seed)"""
    kw = b''.join(b'kw%dz { return %d; }\n' % (i, i) for i in range(9000))
    return rule_limit_sweep() + [
        ('too-many-rules', b'%%\n' + b'a ;\n' * 8200, []),
        ('rules-just-below-limit', b'%%\n' + b'a ;\n' * 8190, []),
        ('nfa-too-large', b'%%\n((a{1,1000}){1,1000}) ;\n', []),
        ('nfa-too-large-keywords', b'%%\n' + kw, []),
        ('nfa-limit-lifted-by-Ca', b'%%\n((a{1,200}){1,200}) ;\n', ['-Ca']),
        ('nfa-limit-lifted-by-Ca-keywords', b'%%\n' + kw, ['-Ca']),
        ('name-too-long', b'N' + b'a' * 3000 + b' [a-z]\n%%\n{N' + b'a' * 3000 + b'} ;\n', []),
        ('sc-name-too-long', b'%x S' + b'c' * 5000 + b'\n%%\n<S' + b'c' * 5000 + b'>a ;\n', []),
        ('line-too-long', b'%%\n[' + b'a-z' * 2000 + b'] ;\n', []),
        ('definition-too-long', b'D ' + b'(ab|c)' * 3000 + b'\n%%\n{D} ;\n', []),
        ('option-line-too-long', b'%option ' + b'warn ' * 2000 + b'\n%%\n', []),
        ('parens-10001', b'%%\n' + b'(' * 10001 + b'a' + b')' * 10001 + b' ;\n', []),
        ('parens-200', b'%%\n' + b'(' * 200 + b'a' + b')' * 200 + b' ;\n', []),
        ('scopes-3000', b'%x A B\n%%\n' + b''.join(b'<%s>{\n' % (b'A' if i % 2 else b'B') for i in range(3000)) + b'x ;\n' + b'}\n' * 3000, []),
        ('start-conditions-3000', b''.join(b'%%x SC%d\n' % i for i in range(3000)) + b'%%\n' + b''.join(b'<SC%d>a BEGIN(SC%d);\n' % (i, (i + 1) % 3000) for i in range(3000)), []),
        ('action-400k', b'%%\nzz { ' + b'x=1;' * 100000 + b' }\n', []),
        ('string-20000', b'%%\n"' + b's' * 20000 + b'" ;\n', []),
        ('string-20000-Ca', b'%%\n"' + b's' * 20000 + b'" ;\n', ['-Ca']),
        ('repeat-huge-count', b'%%\na{99999999999} ;\nb{1,2147483647} ;\n', []),
        ('ccl-ops-3000', b'%%\n[a-z]' + b'{-}[aeiou]{+}[a-e]' * 3000 + b' ;\n', []),
        ('eof-rules-3000', b'%%\n' + b''.join(b'<<EOF>> { return %d; }\n' % i for i in range(3000)), []),
        ('prefix-too-long', b'%option prefix="' + b'p' * 5000 + b'"\n%%\na ;\n', []),
        ('recursive-definition', b'A x{A}\n%%\n{A} ;\n', []),
        ('recursive-definition-doubling', b'A x{A}{A}\n%%\n{A} ;\n', []),
        ('mutually-recursive-definitions', b'A x{B}{B}\nB y{A}\n%%\n{A} ;\n', []),
        ('yylmax-huge', b'%option array yylmax=2147483647\n%%\na ;\n', []),
    ] + ([
        # minutes of work: thorough only.  Bounded by memory, not by an internal limit.
        ('nfa-10^9-states-Ca', b'%%\n(((a{1,1000}){1,1000}){1,1000}) ;\n', ['-Ca']),
    ] if thorough else [])


def plan(tier, seed, env):
    cfg = TIERS[tier]
    tasks = [('directed', i) for i in range(len(directed_inputs(tier == 'thorough')))]
    tasks += [('fault', i) for i in range(cfg['fault_cases'])]
    tasks += [('robust', i) for i in range(cfg['robust_tasks'])]
    return tasks


def work(env, task):
    kind, idx = task
    rundir = os.path.join(env.workdir, 'run-%s-%d' % (kind, idx))
    try:
        if kind == 'robust':
            return work_robust(env, idx, rundir)
        if kind == 'directed':
            return work_directed(env, idx, rundir)
        return work_fault(env, idx, rundir)
    finally:
        import shutil
        shutil.rmtree(rundir, ignore_errors=True)


def behaviour(o):
    return (runner.status_str(o), o['stderr_sha'], o['stdout_sha'], o['files'].get('scanner', {}).get('sha'))


def work_robust(env, idx, rundir):
    cfg = TIERS[env.tier]
    res = TaskResult()
    rng = env.rng('robust', idx)
    corp, fams = corpus()
    oi = C.pick_original(rng, corp, fams)
    name, data = corp[oi]
    opts = C.pick_opts(rng)
    outs = C.pick_outs(rng)
    res.option_sets.add(' '.join(opts))
    cmd0 = {'input': data, 'opts': opts, 'outs': outs}
    o0, vs = run_judged(env, rundir, cmd0, None, None, res)
    res.evaluations += 1
    res.inputs.add(hashlib.sha1(data).hexdigest()[:16])
    res.stats['robust:original:' + ('accepted' if o0['status'] == 0 else 'refused')] += 1
    for cls, detail, feats in vs:
        res.violations.append(mk_viol(cls, detail, feats, cmd0, None, o0, 'robust %d original %s' % (idx, name), origin=name))
    b0 = behaviour(o0)
    for m in range(cfg['mutants']):
        mr = env.rng('robust', idx, 'mut', m)
        data2, names = C.mutate(mr, data, corp)
        # a third of the mutants also get their own option set
        o_opts, o_outs = opts, outs
        if mr.random() < 0.33:
            o_opts, o_outs = C.pick_opts(mr), C.pick_outs(mr)
            res.option_sets.add(' '.join(o_opts))
        cmd = {'input': data2, 'opts': o_opts, 'outs': o_outs}
        o, vs = run_judged(env, rundir, cmd, None, None, res)
        res.evaluations += 1
        res.inputs.add(hashlib.sha1(data2).hexdigest()[:16])
        for n_ in names:
            res.stats['mutator:' + n_] += 1
        res.stats['robust:mutant:' + ('accepted' if o['status'] == 0 else ('refused' if (o['status'] or 0) > 0 else runner.status_str(o).replace(' ', '-')))] += 1
        if data2 != data and (behaviour(o) != b0 or (o_opts, o_outs) != (opts, outs)):
            res.nontrivial.add('R ' + cmd_key(cmd))
        if len(res.samples) < 2 and o['status'] not in (0, None) and idx % 8 == 0 and not any(s['tag'] == 'malformed:' + names[0] for s in res.samples):
            res.samples.append({'tag': 'malformed:' + names[0], 'kind': 'malformed input', 'origin': name, 'mutators': names, 'argv': runner.argv_of(cmd),
                                'input_bytes': len(data2), 'outcome': runner.status_str(o), 'stderr_first_line': (diag_lines(o) or [''])[0][:160]})
        for cls, detail, feats in vs:
            res.violations.append(mk_viol(cls, detail, feats, cmd, None, o, 'robust %d mutant %d of %s' % (idx, m, name), mutators=names, origin=name))
    return res


def work_directed(env, idx, rundir):
    res = TaskResult()
    name, data, opts, *rest = directed_inputs(True)[idx]
    for outs in ({'scanner': 'stdout'}, {'scanner': 'file', 'header': True, 'tables': True, 'backup': 'file'}):
        cmd = {'input': data, 'opts': list(opts), 'outs': outs}
        if rest:
            cmd['expect'] = rest[0]
        o, vs = run_judged(env, rundir, cmd, None, None, res)
        res.evaluations += 1
        res.inputs.add(hashlib.sha1(data).hexdigest()[:16])
        res.option_sets.add(' '.join(opts))
        res.stats['directed:' + ('accepted' if o['status'] == 0 else 'refused')] += 1
        res.nontrivial.add('D ' + cmd_key(cmd))
        if outs.get('header'):
            res.samples.append({'tag': 'directed:' + name, 'kind': 'internal limit', 'name': name, 'argv': runner.argv_of(cmd), 'input_bytes': len(data),
                                'outcome': runner.status_str(o), 'stderr_first_line': (diag_lines(o) or [''])[0][:160]})
        for cls, detail, feats in vs:
            res.violations.append(mk_viol(cls, detail, feats, cmd, None, o, 'directed %s' % name, mutators=['directed:' + name], origin=name))
    return res


def enumerate_faults(rng, cmd, base, nrandom, edge=0):
    """all faults for one successful command.  yields (cmd', fault)"""
    outs = cmd['outs']
    files = [w for w in ('scanner', 'header', 'tables', 'backup') if runner.out_path(cmd, w) is not None]
    for w in files:
        st = base['files'].get(w)
        if not st or st.get('kind') != 'file':
            continue
        size = st['len']
        lims = limits_for(rng, size, nrandom, edge)
        for j, n in enumerate(lims):
            o2 = outs_for_fsize(outs, base, w, n)
            if w == 'scanner':
                o2['scanner'] = ('file', 'stdout-file', 'default')[j % 3]
            yield dict(cmd, outs=o2), {'kind': 'fsize', 'file': w, 'n': n}
        for k in runner.PATH_FAULTS:
            yield cmd, {'kind': k, 'file': w}
    # scanner on stdout: /dev/full, redirect into a limited file, vanishing reader
    c_t = dict(cmd, outs=dict(outs, scanner='stdout'))
    yield c_t, {'kind': 'devfull', 'file': 'scanner'}
    yield dict(cmd, outs=dict(outs, scanner='stdout-file')), {'kind': 'devfull', 'file': 'scanner'}
    sc = base['files'].get('scanner', {}).get('len', 0)
    rl = [0, 1, 4095, 4096, 4097, max(0, sc - PIPE_CAP - 2), sc - 1, sc]
    for _ in range(nrandom):
        if sc > PIPE_CAP + 10:
            rl.append(rng.randrange(2, sc - PIPE_CAP - 1))
    for j, n in enumerate(sorted(set(x for x in rl if x >= 0))):
        yield c_t, {'kind': 'reader', 'n': n, 'sigpipe': ('default', 'ignore')[j % 2]}
        if n in (0, 4096):
            yield c_t, {'kind': 'reader', 'n': n, 'sigpipe': ('ignore', 'default')[j % 2]}
    # m4
    yield cmd, {'kind': 'm4', 'mode': 'ok', 'n': 0, 'branch': 'both'}
    yield cmd, {'kind': 'm4', 'mode': 'missing', 'n': 0, 'branch': 'both'}
    branches = ['c'] + (['header', 'both'] if outs.get('header') else [])
    for br in branches:
        avail = base['files'].get('header' if br == 'header' else 'scanner', {}).get('len', 10000)
        ns = [0, 1, 4096, max(0, avail // 2), 10 ** 9]
        for _ in range(max(1, nrandom // 2)):
            ns.append(rng.randrange(0, max(2, avail)))
        for j, n in enumerate(sorted(set(ns))):
            yield cmd, {'kind': 'm4', 'mode': ('exit1', 'signal')[j % 2], 'n': n, 'branch': br}


def work_fault(env, idx, rundir):
    cfg = TIERS[env.tier]
    res = TaskResult()
    rng = env.rng('fault', idx)
    corp, fams = corpus()
    base = None
    for attempt in range(4):
        oi = C.pick_original(rng, corp, fams)
        name, data = corp[oi]
        names = []
        if rng.random() < 0.25:
            data, names = C.mutate(rng, data, corp, max_steps=1)
        opts = list(C.FAULT_OPTS[rng.randrange(len(C.FAULT_OPTS))])
        outs = C.pick_outs(rng, full=True)
        cmd = {'input': data, 'opts': opts, 'outs': outs}
        base, vs = run_judged(env, rundir, cmd, None, None, res)
        res.evaluations += 1
        for cls, detail, feats in vs:
            res.violations.append(mk_viol(cls, detail, feats, cmd, None, base, 'fault case %d baseline %s' % (idx, name), mutators=names, origin=name))
        if base['status'] == 0 and not vs:
            break
        res.stats['fault-case:baseline-refused'] += 1
        base = None
    if base is None:
        res.stats['fault-case:skipped'] += 1
        return res
    res.inputs.add(hashlib.sha1(data).hexdigest()[:16])
    res.option_sets.add(' '.join(opts))
    res.stats['fault-case:run'] += 1
    bases = {cmd_key(cmd): base}
    for cmd2, fault in enumerate_faults(rng, cmd, base, cfg['random_limits'], cfg['edge_limits']):
        k = cmd_key(cmd2)
        b = bases.get(k)
        if b is None:
            b, vs = run_judged(env, rundir, cmd2, None, None, res)
            res.evaluations += 1
            bases[k] = b
            for cls, detail, feats in vs:
                res.violations.append(mk_viol(cls, detail, feats, cmd2, None, b, 'fault case %d rerouted baseline %s' % (idx, name), mutators=names, origin=name))
        if b['status'] != 0:
            res.stats['fault-case:rerouted-baseline-refused'] += 1
            continue
        if fault['kind'] == 'fsize' and any(sz > fault['n'] for sz in b.get('extra_files', {}).values()):
            # the input asks for another regular file (%option backup ...) that the limit would hit first
            res.stats['fault-case:extra-output-in-the-way'] += 1
            continue
        if fault.get('file') and runner.out_path(cmd2, fault['file']) is not None and b['files'].get(fault['file'], {}).get('kind') != 'file':
            # the input names its own output file (prefix=, outfile=): the fault would not be aimed at it
            res.stats['fault-case:output-elsewhere'] += 1
            continue
        o, vs = run_judged(env, rundir, cmd2, fault, b, res)
        res.evaluations += 1
        fk = fault['kind'] + (':' + fault['file'] if 'file' in fault else '') + (':' + fault['mode'] + ':' + fault['branch'] if fault['kind'] == 'm4' else '')
        res.stats['injected:' + fk] += 1
        if fired(cmd2, fault, o, b):
            res.stats['fired:' + fk] += 1
            res.nontrivial.add('F ' + k + ' ' + runner.fault_key(fault))
            res.stats['fired-outcome:' + runner.status_str(o).replace(' ', '-')] += 1
            if idx % 4 == 0 and not any(s['tag'] == fk for s in res.samples) and (fault['kind'] != 'fsize' or fault['n'] > 1):
                res.samples.append({'tag': fk, 'kind': 'fault case', 'origin': name, 'argv': runner.argv_of(cmd2), 'fault': runner.describe_fault(fault),
                                    'fault_free_sizes': {w: s.get('len') for w, s in b['files'].items()},
                                    'outcome': runner.status_str(o), 'stderr_first_line': (diag_lines(o) or [''])[0][:160]})
        for cls, detail, feats in vs:
            res.violations.append(mk_viol(cls, detail, feats, cmd2, fault, o, 'fault case %d %s %s' % (idx, name, runner.fault_key(fault)), mutators=names, origin=name))
    return res


# ------------------------------------------------------------------ pipeline hooks
SHRINK = True
NO_SHRINK_CLASSES = ('hang', 'limit-boundary')      # every test of a hang costs minutes; the expectation of a limit-boundary case is a function of the whole input
GATE_RUNS = {'hang': 1}            # the detection itself already ran it twice (10 s cap, then 300 s cap)
SHRINK_BUDGET = 30       # rechecks; a recheck is one or two flex runs


def signature(v):
    f = v.get('feats', {})
    return (v['class'], f.get('file', '-'), f.get('phase', '-'), f.get('fault', '-'), f.get('branch', '-'), f.get('kind', f.get('signal', '-')), f.get('site', f.get('message', '-')))


def features(v):
    d = {'class': v['class']}
    for k, x in v.get('feats', {}).items():
        d[k] = x
    d['mutated_input'] = bool(v.get('mutators'))
    return d


def recheck(env, v, quick=False):
    """re-run the recorded command (+ its fault-free twin when a fault is part of
    it) and judge again.  -> (persists, detail, gate_key, observed)"""
    rundir = os.path.join(env.workdir, 'recheck-%d' % os.getpid())
    try:
        cmd, fault = v['cmd'], v.get('fault')
        base = None
        if fault is not None:
            base, _ = run_judged(env, rundir, cmd, None, None)
            if base['status'] != 0:
                return False, 'fault-free run no longer succeeds', '', {}
        o, vs = run_judged(env, rundir, cmd, fault, base)
        want = signature(v)
        for cls, detail, feats in vs:
            cand = {'class': cls, 'feats': feats}
            if signature(cand) == want or (cls == v['class'] and cls in ('crash', 'sanitizer', 'hang') and quick):
                obs = {'status': runner.status_str(o), 'stderr': o['stderr'][:1500], 'stdout_len': o['stdout_len'],
                       'files': {w: {k: s[k] for k in s if not k.startswith('_')} for w, s in o['files'].items()},
                       'fault_free': None if base is None else {'status': runner.status_str(base), 'files': {w: s.get('len') for w, s in base['files'].items()}},
                       'm4_invocations': o.get('m4_invocations')}
                return True, detail, gate_key(o, cls), obs
        return False, 'observed %s, verdicts %s' % (runner.status_str(o), [x[0] for x in vs]), gate_key(o, v['class']), {}
    finally:
        import shutil
        shutil.rmtree(rundir, ignore_errors=True)


def evidence_extra(env, total):
    return {'flex_binary': 'ASan+UBSan build' if _is_san(env) else 'plain build (override without a sanitizer twin)',
            'time_cap_s': runner.TIMEOUT, 'corpus_files': len(corpus()[0])}


def run(tier, seed):
    import sys
    mod = sys.modules[__name__]
    return driver.run_check(mod, tier, seed, need_san=True)


def replay(path):
    import sys
    mod = sys.modules[__name__]
    return driver.run_replay(mod, path, need_san_of=lambda rep: rep.get('class') in ('sanitizer', 'crash', 'hang'))

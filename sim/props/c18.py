"""C18: scanner generation is deterministic and reproducible.

World P check: runs the same flex command under perturbed allocators (glibc
MALLOC_PERTURB_, an LD_PRELOAD shim that fills fresh and grown memory with
seeded junk, pads requests and always moves on realloc), heap tunables, ASLR
on/off, environment size, working directory, pid, locale, CPU affinity, nice,
pipeline timing and output routing, and demands byte-identical scanner,
header, tables and backup files; plus the bootstrap fix-point on src/scan.l."""
from __future__ import annotations
import hashlib
import os
import re
import subprocess

from simlib import common
from worldp import corpus as C
from worldp import driver, runner
from worldp.driver import TaskResult

ID = 'C18'
LEVEL = 'exploration'

TIERS = {
    # a case = 1 reference run + 24 perturbed runs + 2 routings of the same command
    'quick': {'cases': 480, 'mutant_share': 0.3},
    'thorough': {'cases': 16000, 'mutant_share': 0.4},
}

RULE = ('Cases: a .l/.lex file of /repo/tests, /repo/src/scan.l or /repo/examples (or a seeded mutation of one) x an option set from a pool of '
        'about 65 x {-o out.c, header, tables, backup all requested}. Each case is generated once in a reference environment and once under '
        'every perturbation (identical re-run; MALLOC_PERTURB_=0/0x55/0xAA/0xFF; LD_PRELOAD malloc shim with 3 seeds and 2 partial modes; '
        'GLIBC_TUNABLES mmap_threshold / top_pad+tcache_count; ASLR off; environment padded by 4 KB / 100 KB; deeper working directory; burnt '
        'pids; stdin closed; stdin closed; LC_ALL=C.UTF-8; one CPU; nice 10; 1 MB stack limit; m4 replaced by a store-and-forward proxy (different pipeline timing); all '
        'of them combined) and once per output routing (-t to a pipe, -t redirected into a file, compared modulo the file name inside #line '
        'directives). Every requested file, stdout, the exit status and the sorted set of the stderr messages written by flex itself must be identical to the reference. A probe program '
        'is run under every perturbation first; a perturbation whose effect the probe cannot observe is reported and not counted. '
        'A (case, perturbation) pair is non-trivial if the perturbation was verified (for the shim: it reported its malloc/junk counts from '
        'inside the flex processes of this very run) and the reference run produced a scanner; distinct = distinct (input sha, argv, '
        'perturbation). The bootstrap fix-point (flex -o scan.c -t scan.l in the build directory == stage1scan.c made by stage1flex) is '
        'checked under every perturbation as well.')

COMPONENTS = {
    'real': ['flex main process and its filter children (plain -O1 build of the working tree)', 'GNU m4 (system binary)',
             'glibc malloc with its tunables', 'kernel ASLR / personality, affinity, priorities, rlimits', 'stage1flex-generated stage1scan.c of the scratch build'],
    'stubbed': ['allocator: LD_PRELOAD shim on top of __libc_malloc (junk fill, padding, moving realloc) in the shim perturbations',
                'm4 in the timing perturbation: a proxy that buffers all input and output of the real m4'],
}

ASSUMPTIONS = [
    'flex reads no clock and no random source; this is checked on the binary (imported symbols) and reported in coverage.imports_clock_or_random; time therefore is not perturbed beyond the runs happening at different times.',
    'The allocator shim wraps malloc/calloc/realloc/free only; flex uses no other allocation entry point (memalign, mmap) for data that reaches its output.',
    '-o FILE and -t are compared after replacing the file name in #line directives of the shape #line N "NAME" where NAME is the scanner name or <stdout>.',
    'The perturbations are applied to the whole process tree, m4 included; a difference caused by m4 would be reported as well.',
    'Sanitizer builds are not used here: ASan replaces the allocator and cannot be combined with malloc interposition.',
]

PROBE_KEYS = ('fresh_byte', 'reused_byte', 'grown_byte', 'mid_in_mmap', 'brk_growth', 'stack_addr', 'small_addr', 'env_bytes', 'cwd', 'pid',
              'locale', 'mb_cur_max', 'cpus', 'nice', 'stack_limit')


def perturbations(tools):
    """[(name, envspec, verify)] verify(probe_ref, probe_pert, probe_pert2) -> str|None (observed effect)"""
    def differs(key):
        return lambda a, b, b2: ('%s %s -> %s' % (key, a.get(key), b.get(key))) if a.get(key) != b.get(key) else None

    def equals(key, val):
        return lambda a, b, b2: ('%s = %s' % (key, b.get(key))) if b.get(key) == val and a.get(key) != val else None

    def shim(a, b, b2):
        m = b.get('_mshim')
        if m and m['mallocs'] > 0 and (m['junk_bytes'] > 0 or m['reallocs'] > 0):
            return 'shim active: %d mallocs, %d junk bytes, fresh byte %s' % (m['mallocs'], m['junk_bytes'], b.get('fresh_byte'))
        return None

    def aslr(a, b, b2):
        if b.get('stack_addr') == b2.get('stack_addr') and b.get('small_addr') == b2.get('small_addr') and a.get('stack_addr') != b.get('stack_addr'):
            return 'addresses repeat: stack %s heap %s' % (b.get('stack_addr'), b.get('small_addr'))
        return None

    P = [
        ('same', {}, lambda a, b, b2: 'identical environment (re-run)'),
        ('perturb-0', {'env': {'MALLOC_PERTURB_': '0'}}, lambda a, b, b2: None),
        ('perturb-0x55', {'env': {'MALLOC_PERTURB_': '85'}}, differs('fresh_byte')),
        ('perturb-0xAA', {'env': {'MALLOC_PERTURB_': '170'}}, differs('fresh_byte')),
        ('perturb-0xFF', {'env': {'MALLOC_PERTURB_': '255'}}, differs('freed_byte')),
        ('mshim-seed1', {'mshim': {'seed': 1, 'mode': 15}}, shim),
        ('mshim-seed2', {'mshim': {'seed': 2, 'mode': 15}}, shim),
        ('mshim-seed3', {'mshim': {'seed': 3, 'mode': 15}}, shim),
        ('mshim-junk-only', {'mshim': {'seed': 4, 'mode': 9}}, shim),
        ('mshim-layout-only', {'mshim': {'seed': 5, 'mode': 6}}, shim),
        ('tunables-mmap', {'env': {'GLIBC_TUNABLES': 'glibc.malloc.mmap_threshold=4096'}}, differs('big_in_mmap')),
        ('tunables-toppad', {'env': {'GLIBC_TUNABLES': 'glibc.malloc.top_pad=4194304:glibc.malloc.tcache_count=0'}}, differs('brk_growth')),
        ('noaslr', {'noaslr': True}, aslr),
        ('envpad-4k', {'envpad': 4096}, differs('env_bytes')),
        ('envpad-100k', {'envpad': 100000}, differs('env_bytes')),
        ('subdir', {'subdir': 'deeper/and/deeper'}, differs('cwd')),
        ('burn-pids', {'burn_pids': 7}, lambda a, b, b2: 'pid %s vs %s' % (a.get('pid'), b.get('pid')) if a.get('pid') != b.get('pid') else None),
        ('locale-utf8', {'env': {'LC_ALL': 'C.UTF-8', 'LANG': 'C.UTF-8'}}, differs('mb_cur_max')),
        ('one-cpu', {'affinity': [0]}, equals('cpus', '1')),
        ('nice-10', {'nice': 10}, equals('nice', '10')),
        ('stack-1m', {'stack_kb': 1024}, differs('stack_limit')),
        ('stdin-closed', {'close_stdin': True}, differs('stdin_open')),
        ('m4-proxy', {'m4proxy': True}, lambda a, b, b2: 'm4 proxy' if b.get('_m4') else None),
        ('combined', {'mshim': {'seed': 6, 'mode': 15}, 'noaslr': True, 'envpad': 30000, 'subdir': 'x', 'affinity': [0], 'nice': 5,
                      'env': {'LC_ALL': 'C.UTF-8', 'GLIBC_TUNABLES': 'glibc.malloc.mmap_threshold=65536'}}, shim),
    ]
    return P


ROUTINGS = ('stdout', 'stdout-file')
AS_LIMIT_MB = 1024
HEAVY_S = 4.0        # ... and is skipped altogether beyond this (its fate would depend on the memory limit)
MEM_RE = re.compile(r'array size failed|allocation fail|memory exhausted|out of memory|malloc failed|calloc failed|dynamic memory')
SLOW_S = 1.5          # a case whose reference run takes longer gets the reduced set of perturbations
SLOW_SET = ('mshim-seed1', 'perturb-0x55', 'tunables-mmap', 'combined')
_LINE_RE = re.compile(rb'^(#line \d+ ")(?:out\.c|<stdout>|lex\.yy\.cc?)(")', re.M)


def norm_lines(b):
    return _LINE_RE.sub(rb'\1SCANNER\2', b)


# ------------------------------------------------------------------ running
def _fault_for(spec):
    return {'kind': 'm4', 'mode': 'ok', 'n': 0, 'branch': 'both'} if spec and spec.get('m4proxy') else None


def execute(env, rundir, cmd, spec, binary=None, timeout=None):
    return runner.run_flex(binary or env.flex, rundir, cmd, _fault_for(spec), envspec=spec, tools=env.tools, san=False, keep_bytes=True,
                           as_limit_mb=AS_LIMIT_MB, timeout=timeout)


def observation(o, cmd, normalise=False):
    """{channel: bytes} of everything the property talks about"""
    d = {}
    mode = cmd['outs'].get('scanner', 'file')
    if mode == 'stdout':
        sc = o.get('_stdout', b'')
        d['stdout'] = b''
    else:
        st = o['files'].get('scanner', {})
        sc = st.get('_bytes') if st.get('kind') == 'file' else ('<%s>' % st.get('kind')).encode()
        d['stdout'] = o.get('_stdout', b'') if mode != 'stdout-file' else b''
    d['scanner'] = norm_lines(sc) if normalise and sc is not None else sc
    for w in ('header', 'tables', 'backup'):
        if runner.out_path(cmd, w) is None:
            continue
        st = o['files'].get(w, {})
        d[w] = st.get('_bytes') if st.get('kind') == 'file' else ('<%s>' % st.get('kind')).encode()
    # a failing pipeline ends with "exit 1" or with SIGPIPE depending on which process notices
    # first: both are "failed"; any other signal keeps its name
    st = o['status']
    d['status'] = (b'exit 0' if st == 0 else b'failed' if (st is not None and (st > 0 or st == -13)) else runner.status_str(o).encode())
    d['stderr'] = '\n'.join(runner.flex_messages(o['stderr'])).encode('latin-1', 'replace')
    return d


def first_diff(a, b):
    n = min(len(a), len(b))
    i = 0
    while i < n and a[i] == b[i]:
        i += 1
    line = a[:i].count(b'\n') + 1
    s = max(0, a.rfind(b'\n', 0, i) + 1)
    ea = a.find(b'\n', i)
    eb = b.find(b'\n', i)
    return 'offset %d (line %d): reference %r / other %r (lengths %d / %d)' % (
        i, line, a[s:ea if ea >= 0 else len(a)][:120], b[s:eb if eb >= 0 else len(b)][:120], len(a), len(b))


FILE_CHANNELS = ('scanner', 'header', 'tables', 'backup', 'stdout')


def compare(ref, oth, skip=()):
    """-> list of (channel, description).  What a run that ends non-zero leaves behind in its
    files depends on how far each process of the collapsing pipeline got: only the status
    and flex's own messages are compared then."""
    out = []
    failed = ref.get('status') != b'exit 0'
    for ch in ('status', 'scanner', 'header', 'tables', 'backup', 'stdout', 'stderr'):
        if ch in skip or ch not in ref or (failed and ch in FILE_CHANNELS):
            continue
        if ref[ch] != oth.get(ch):
            out.append((ch, first_diff(ref[ch] or b'', oth.get(ch) or b'')))
    return out


def routing_skip(ref_o):
    """channels not compared between -o FILE and -t: messages and -v statistics name
    the options and the output file; a refused input leaves no files to compare"""
    if ref_o['status'] == 0 and ref_o['files'].get('scanner', {}).get('kind') == 'file':
        return ('stdout', 'stderr')
    if ref_o['status'] == 0:
        # %option stdout / outfile= / prefix= in the input: the scanner is not where -o put it
        return ('stdout', 'stderr', 'scanner')
    return ('stdout', 'stderr', 'scanner', 'header', 'tables', 'backup')


def run_pair(env, rundir, cmd, spec, routing=None, binary=None):
    """reference vs one perturbation (or routing).  -> (diffs, ref outcome, other outcome)"""
    ref_o = execute(env, rundir + '-ref', cmd, None, binary)
    ref = observation(ref_o, cmd, normalise=routing is not None)
    cmd2 = cmd if routing is None else dict(cmd, outs=dict(cmd['outs'], scanner=routing))
    o = execute(env, rundir + '-alt', cmd2, spec, binary)
    oth = observation(o, cmd2, normalise=routing is not None)
    skip = routing_skip(ref_o) if routing is not None else ()
    return compare(ref, oth, skip), ref_o, o


# ------------------------------------------------------------------ preparation (probe, static facts)
_STATE = {}


def prepare(env):
    here = os.path.dirname(os.path.abspath(runner.__file__))
    probe = os.path.join(env.workdir, 'probe')
    p = subprocess.run(['gcc', '-O0', '-o', probe, os.path.join(here, 'probe.c')], stdout=subprocess.PIPE, stderr=subprocess.STDOUT, text=True,
                       env=dict(os.environ, TMPDIR=env.workdir))
    if p.returncode != 0:
        return {'error': 'compiling probe.c failed: ' + p.stdout}
    env.tools['probe'] = probe
    cmd = {'input': b'', 'opts': [], 'outs': {'scanner': 'stdout'}}

    def run_probe(spec, tag):
        o = runner.run_flex(probe, os.path.join(env.workdir, 'probe-' + tag), cmd, None, envspec=spec, tools=env.tools, keep_bytes=True)
        d = {}
        for line in o.get('_stdout', b'').decode('latin-1').split('\n'):
            if ' ' in line:
                k, v = line.split(' ', 1)
                d[k] = v
        if o.get('mshim'):
            d['_mshim'] = o['mshim']
        if spec and spec.get('m4proxy'):
            d['_m4'] = True
        return d
    ref = run_probe(None, 'ref')
    if 'pid' not in ref:
        return {'error': 'the probe program did not run'}
    verified = {}
    unverified = []
    for name, spec, verify in perturbations(env.tools):
        a = run_probe(spec, 'a')
        b = run_probe(spec, 'b')
        eff = verify(ref, a, b)
        if eff:
            eff = eff.replace(env.workdir, '<scratch>')
            verified[name] = eff
        else:
            unverified.append(name)
    env.tools['verified'] = verified
    # static: does flex import a clock or a random source?
    imports = []
    try:
        q = subprocess.run(['nm', '-D', '--undefined-only', env.flex], stdout=subprocess.PIPE, stderr=subprocess.DEVNULL, text=True)
        for line in q.stdout.split('\n'):
            sym = line.split()[-1].split('@')[0] if line.split() else ''
            if sym in ('time', 'gettimeofday', 'clock_gettime', 'clock', 'rand', 'random', 'srand', 'srandom', 'getpid', 'getrandom',
                       'localtime', 'ctime', 'strftime', 'mktemp', 'mkstemp', 'tmpfile', 'tmpnam', 'getentropy', 'arc4random'):
                imports.append(sym)
    except OSError:
        imports = ['(nm not available)']
    return {'evidence': {'perturbations_verified': verified, 'perturbations_without_observable_effect': unverified,
                         'imports_clock_or_random': sorted(imports)}}


# ------------------------------------------------------------------ tasks
_CORPUS = None


def corpus():
    global _CORPUS
    if _CORPUS is None:
        c = C.load_corpus()
        _CORPUS = (c, C.families(c))
    return _CORPUS


def plan(tier, seed, env):
    cfg = TIERS[tier]
    return [('bootstrap', 0)] + [('case', i) for i in range(cfg['cases'])]


def work(env, task):
    kind, idx = task
    rundir = os.path.join(env.workdir, 'run-%s-%d' % (kind, idx))
    try:
        if kind == 'bootstrap':
            return work_bootstrap(env, rundir)
        return work_case(env, idx, rundir)
    finally:
        import shutil
        for suffix in ('-ref', '-alt', ''):
            shutil.rmtree(rundir + suffix, ignore_errors=True)


def mk_viol(cls, ch, desc, cmd, pname, spec, routing, where, mutators=None, origin=None):
    fam = re.split(r'[-]', pname)[0] if pname else 'routing'
    return {'class': cls, 'detail': '%s differs under %s: %s' % (ch, pname or ('routing ' + routing), desc),
            'feats': {'file': ch, 'perturbation': fam}, 'cmd': cmd, 'fault': None, 'envspecs': [None, spec], 'routing': routing,
            'pname': pname, 'where': where, 'mutators': mutators or [], 'origin': origin, 'gate_key': cls + ':' + ch}


def cmd_key(cmd):
    return hashlib.sha1(cmd['input']).hexdigest()[:16] + ' ' + ' '.join(runner.argv_of(cmd))


def work_case(env, idx, rundir):
    cfg = TIERS[env.tier]
    res = TaskResult()
    rng = env.rng('case', idx)
    corp, fams = corpus()
    # walk through the whole corpus first, then sample by family
    oi = idx if idx < len(corp) else C.pick_original(rng, corp, fams)
    name, data = corp[oi]
    names = []
    if rng.random() < cfg['mutant_share']:
        data, names = C.mutate(rng, data, corp, max_steps=2)
    opts = C.pick_opts(rng) if rng.random() < 0.8 else []
    opts = [x for x in opts if x != '-T']
    outs = {'scanner': 'file', 'header': True, 'tables': rng.random() < 0.8, 'backup': rng.choice(['-b', 'file', 'file', ''])}
    cmd = {'input': data, 'opts': opts, 'outs': outs}
    res.inputs.add(hashlib.sha1(data).hexdigest()[:16])
    res.option_sets.add(' '.join(opts))
    ref_o = execute(env, rundir + '-ref', cmd, None)
    res.evaluations += 1
    if ref_o['timeout']:
        res.stats['case:reference-timeout'] += 1
        return res
    ref = observation(ref_o, cmd)
    ref_n = observation(ref_o, cmd, normalise=True)
    produced = ref_o['status'] == 0 and ref_o['files'].get('scanner', {}).get('kind') == 'file'
    res.stats['case:' + ('generated' if produced else 'refused')] += 1
    k = cmd_key(cmd)
    verified = env.tools.get('verified', {})
    if ref_o['wall'] > HEAVY_S or MEM_RE.search(ref_o['stderr']):
        res.stats['case:too-heavy-skipped'] += 1
        return res
    shim_timeouts = 0
    slow = ref_o['wall'] > SLOW_S
    if slow:
        res.stats['case:slow-reduced-set'] += 1
    for pname, spec, _v in perturbations(env.tools):
        if slow and pname not in SLOW_SET:
            continue
        if spec.get('mshim') and shim_timeouts:
            # one-row-at-a-time realloc of a big table is quadratic once realloc always moves: slow, not wrong
            res.stats['case:shim-run-skipped-after-timeout'] += 1
            continue
        o = execute(env, rundir + '-alt', cmd, spec, timeout=min(runner.TIMEOUT, max(2.0, 15 * ref_o['wall'])))
        if o['timeout'] and spec.get('mshim'):
            shim_timeouts += 1
        res.evaluations += 1
        res.stats['perturbation:' + pname] += 1
        applied = pname in verified
        if spec.get('mshim'):
            m = o.get('mshim') or {}
            applied = m.get('mallocs', 0) > 0 and m.get('junk_bytes', 0) + m.get('reallocs', 0) > 0
            res.stats['shim:mallocs'] += m.get('mallocs', 0)
            res.stats['shim:junk_bytes'] += m.get('junk_bytes', 0)
            res.stats['shim:processes'] += m.get('processes', 0)
        if spec.get('m4proxy'):
            applied = len(o.get('m4_invocations') or []) > 0
        if applied:
            res.stats['fired:' + pname] += 1
            if produced and pname != 'same':
                res.nontrivial.add('P ' + k + ' ' + pname)
        if o['timeout'] or MEM_RE.search(o['stderr']):
            res.stats['case:perturbed-timeout-or-memory-limit'] += 1
            continue
        for ch, desc in compare(ref, observation(o, cmd)):
            res.violations.append(mk_viol('output-differs' if ch not in ('status', 'stderr') else ch + '-differs', ch, desc, cmd, pname, spec, None,
                                          'case %d %s %s' % (idx, name, pname), names, name))
    for routing in ROUTINGS[:1 if slow else None]:
        cmd2 = dict(cmd, outs=dict(outs, scanner=routing))
        o = execute(env, rundir + '-alt', cmd2, None)
        res.evaluations += 1
        res.stats['fired:routing-' + routing] += 1
        if produced:
            res.nontrivial.add('P ' + k + ' routing-' + routing)
        for ch, desc in compare(ref_n, observation(o, cmd2, normalise=True), routing_skip(ref_o)):
            res.violations.append(mk_viol('routing-differs', ch, desc, cmd, None, None, routing, 'case %d %s routing %s' % (idx, name, routing), names, name))
    if idx % 16 == 0 and len(res.samples) < 1:
        res.samples.append({'tag': 'case:%s:%s' % ('mutant' if names else 'original', 'generated' if produced else 'refused'), 'kind': 'case', 'origin': name, 'mutators': names, 'argv': runner.argv_of(cmd), 'reference': runner.status_str(ref_o),
                            'sizes': {w: s.get('len') for w, s in ref_o['files'].items()},
                            'perturbations_run': len(perturbations(env.tools)), 'routings_run': list(ROUTINGS)})
    return res


# ------------------------------------------------------------------ bootstrap fix-point
def bootstrap_once(env, spec, rundir):
    """what `make stage2compare` does: (cd src && ./flex -o scan.c -t scan.l) > stage2scan.c; cmp stage1scan.c stage2scan.c
    -> (ok|None, description)"""
    src = os.path.dirname(env.flex)
    s1 = os.path.join(src, 'stage1scan.c')
    sl = os.path.join(src, 'scan.l')
    if not (os.path.exists(s1) and os.path.exists(sl)):
        return None, 'no stage1scan.c / scan.l next to %s' % env.flex
    with open(sl, 'rb') as f:
        data = f.read()
    with open(s1, 'rb') as f:
        want = f.read()
    # same command line as the Makefile: -o scan.c -t scan.l, run on a copy named scan.l
    cmd = {'input': data, 'opts': ['-o', 'scan.c'], 'outs': {'scanner': 'stdout'}}
    old = runner.IN_NAME
    runner.IN_NAME = 'scan.l'
    try:
        o = runner.run_flex(env.flex, rundir, cmd, _fault_for(spec), envspec=spec, tools=env.tools, keep_bytes=True)
    finally:
        runner.IN_NAME = old
    got = o.get('_stdout', b'')
    if o['status'] != 0:
        return False, 'flex -o scan.c -t scan.l ended with %s: %s' % (runner.status_str(o), o['stderr'][:300])
    if got != want:
        return False, 'stage2 scanner differs from stage1scan.c at ' + first_diff(want, got)
    return True, '%d bytes identical' % len(got)


def work_bootstrap(env, rundir):
    res = TaskResult()
    verified = env.tools.get('verified', {})
    with open(os.path.join(os.path.dirname(env.flex), 'scan.l'), 'rb') as f:
        data = f.read() if True else b''
    for pname, spec, _v in [('reference', None, None)] + perturbations(env.tools):
        ok, desc = bootstrap_once(env, spec, rundir)
        if ok is None:
            res.stats['bootstrap:not-available'] += 1
            res.notes.append(desc)
            return res
        res.evaluations += 1
        res.stats['bootstrap:' + ('identical' if ok else 'DIFFERENT')] += 1
        if pname in verified or pname == 'reference':
            res.nontrivial.add('B scan.l ' + pname)
        if not ok:
            cmd = {'input': data, 'opts': ['-o', 'scan.c'], 'outs': {'scanner': 'stdout'}}
            v = mk_viol('bootstrap-mismatch', 'scanner', desc, cmd, pname, spec, None, 'bootstrap ' + pname)
            v['feats'] = {'file': 'scanner', 'perturbation': re.split(r'[-]', pname)[0]}
            res.violations.append(v)
    res.samples.append({'tag': 'bootstrap', 'kind': 'bootstrap fix-point', 'command': '(cd <scratch>/src && ./flex -o scan.c -t scan.l) | cmp - stage1scan.c',
                        'environments': 1 + len(perturbations(env.tools)), 'result': dict(res.stats)})
    return res


# ------------------------------------------------------------------ pipeline hooks
SHRINK = True
SHRINK_ALWAYS = True
SHRINK_BUDGET = 30
RETRIES = 12


def signature(v):
    f = v.get('feats', {})
    return (v['class'], f.get('file', '-'))


def features(v):
    d = {'class': v['class']}
    d.update(v.get('feats', {}))
    d['mutated_input'] = bool(v.get('mutators'))
    return d


def recheck(env, v, quick=False):
    rundir = os.path.join(env.workdir, 'recheck-%d' % os.getpid())
    try:
        tries = 1 if quick else RETRIES
        if v['class'] == 'bootstrap-mismatch':
            if quick:
                return False, '', '', {}       # the input is scan.l itself: not shrinkable
            for _ in range(tries):
                ok, desc = bootstrap_once(env, (v.get('envspecs') or [None, None])[1], rundir)
                if ok is False:
                    return True, desc, v['class'] + ':scanner', {'bootstrap': desc}
            return False, 'bootstrap comparison succeeded', '', {}
        spec = (v.get('envspecs') or [None, None])[1]
        want = v['feats']['file']
        last = ''
        for attempt in range(tries):
            diffs, ref_o, o = run_pair(env, rundir, v['cmd'], spec, v.get('routing'))
            for ch, desc in diffs:
                if ch == want:
                    detail = '%s differs under %s: %s' % (ch, v.get('pname') or ('routing ' + str(v.get('routing'))), desc)
                    obs = {'reference_status': runner.status_str(ref_o), 'other_status': runner.status_str(o), 'difference': desc,
                           'attempts_needed': attempt + 1, 'other_stderr': o['stderr'][:600]}
                    return True, detail, v['class'] + ':' + ch, obs
            last = 'no difference in %s (differences: %s)' % (want, [d[0] for d in diffs])
        return False, last, '', {}
    finally:
        import shutil
        for suffix in ('-ref', '-alt', ''):
            shutil.rmtree(rundir + suffix, ignore_errors=True)


def evidence_extra(env, total):
    return {'perturbations': [p[0] for p in perturbations(env.tools)], 'routings': list(ROUTINGS), 'corpus_files': len(corpus()[0])}


def run(tier, seed):
    import sys
    return driver.run_check(sys.modules[__name__], tier, seed, need_san=False)


def replay(path):
    import sys
    return driver.run_replay(sys.modules[__name__], path)

"""Shared machinery of the checks that judge one scanner instance against the
stream model (C05, C08, C09, C10, parts of C13): build, batch-run, model,
triage, reach probes."""
from __future__ import annotations
import collections
import json

from simlib import common, scenario, workload, model
from simlib.engine import Case, Finding, WorkResult
from simlib.plan import Plan, Source, Op

PROBE_STATS = {
    'refill-with-partial-token', 'token-longer-than-buffer', 'eof-with-pending-text', 'input-at-eof',
    'input-nul', 'start-stack-grown', 'buffer-stack-depth>1', 'buffer-stack-grown-twice',
    'legit-pushback-overflow', 'legit-reject-overflow', 'legit-yylmax', 'pop-empty-stack',
    'token-contains-nul', 'token-with-more-prefix', 'default-rule-token', 'more-prefix-dropped-at-wrap',
    'eof-action', 'flush-dropped-bytes', 'restart-dropped-bytes', 'scan-buffer-null-ok', 'eof-ind',
}

COMPONENTS = {
    'real': ['flex built from the current /repo tree', 'm4', 'generated scanner compiled unmodified (clang -O0, ASan+UBSan): C non-reentrant, C reentrant, c99 back end, C++ lexer class (yyFlexLexer subclassed through %option yyclass)',
             'skeleton input routine / glibc stdio when the source kind is stdio; yyread() of %option read'],
    'stubbed': ['input sources (plan-driven read sizes, EOF, EINTR, EIO): YY_INPUT / yyread for C, LexerInput for C++ (std::istream objects only identify the source)', 'yyalloc/yyrealloc/yyfree (ledger, junk fill, always-moving realloc, injected failure)',
                'yywrap', 'fatal-error hook (longjmp)', 'rule actions (op interpreter)', 'instance scheduler (baton)'],
}


def run_stats(res, plan, stats):
    """fault / delivery counters derived from the event log"""
    for ev in res.events:
        k = ev['k']
        if k == 'R':
            ret = ev.get('ret', 0)
            mx = ev.get('max', 0)
            if not isinstance(ret, int) or not isinstance(mx, int):
                continue     # line cut short by the death of the process
            fl = ev.get('flags', [])
            if 'EINTR' in fl:
                stats['fault:EINTR'] += 1
            elif 'EIO' in fl:
                stats['fault:EIO'] += 1
            elif 'EOFIND' in fl:
                stats['fault:early-eof-indication'] += 1
            elif ret == 1 and mx > 1:
                stats['fault:one-byte-read'] += 1
            elif 0 < ret < mx:
                stats['fault:short-read'] += 1
        elif k == 'A':
            if 'FAIL' in ev.get('flags', []):
                stats['fault:alloc-failure'] += 1
            elif ev.get('what') == 'realloc':
                stats['fault:moving-realloc'] += 1
            elif ev.get('what') == 'alloc':
                stats['fault:junk-filled-allocation'] += 1


def status_class(res):
    """classify how the simulated process ended"""
    st = res.status
    if st == 'exit=0':
        return None
    if st == 'exit=77':
        return 'sanitizer'
    if st == 'signal=14':
        return 'hang'
    if st and st.startswith('signal='):
        return 'crash'
    if st == 'exit=4':
        # the driver ended the run itself: event cap / lex cap / ledger
        for ev in res.events:
            if ev['k'] == 'Q':
                if ev.get('msg') in ('event-cap', 'lex-cap'):
                    return 'cap'
                if ev.get('msg') == 'ledger':
                    return 'ledger-abort'
        return 'cap'
    return 'abnormal-exit'


def san_summary(stderr):
    for l in stderr.split('\n'):
        if 'ERROR: AddressSanitizer' in l or 'runtime error:' in l:
            return l.strip()[:300]
    return stderr.strip()[:300]


def judge_run(sc, plan, res, use_matcher=True, overread=False, inst=0):
    """returns (model, extra violations list)"""
    m = model.Model(sc, plan, inst=inst, use_matcher=use_matcher)
    m.check_overread = overread
    m.run(res.events)
    viols = list(m.viol)
    sc_cls = status_class(res)
    if sc_cls == 'sanitizer':
        viols.append(model.Viol('sanitizer', -1, san_summary(res.stderr)))
    elif sc_cls == 'crash':
        viols.append(model.Viol('crash', -1, 'simulated process died: %s' % res.status))
    elif sc_cls == 'hang':
        viols.append(model.Viol('hang', -1, 'run did not terminate within the time cap'))
    elif sc_cls == 'abnormal-exit' and res.status is not None:     # (no status at all: the batch process was cut short - no verdict)
        viols.append(model.Viol('crash', -1, 'simulated process ended with %s: %s' % (res.status, res.stderr[:200])))
    return m, viols


def neutral_token_check(ctx, sc, b, held, start, bol, got_rule, got_text_hex):
    """triage (DESIGN 5.3): scan the same unread bytes with no history at all
    (one in-memory buffer, condition and BOL set directly).  Returns 'foreign'
    when the scanner gives the same answer there - the disagreement is then
    about pure tokenisation (C01/C06), not about this property."""
    p = Plan()
    it = p.insts[0]
    it.top = [Op('INIT'), Op('SCAN_BYTES', d=bytes(held)), Op('BEGIN', a=start), Op('SETBOL', a=int(bol)), Op('LEX', a=1)]
    it.acts = [(0, Op('RETURN', a=0))]
    r = common.run_one(b.exe, p.text())
    for ev in r.events:
        if ev['k'] == 'T':
            if ev['rule'] == got_rule and ev.get('text') == got_text_hex:
                return 'foreign'
            return 'own'
    return 'own'


class StreamProp:
    """configuration of one model-based property check"""
    ID = 'C00'
    CLASSES = set()
    TRIAGE_CLASSES = {'token', 'premature'}
    USE_MATCHER = True
    OVERREAD = False

    def gen_scenario(self, rng):
        return scenario.gen_scenario(rng)

    def gen_plan(self, rng, sc):
        return workload.gen_stream_plan(rng, sc)

    def nontrivial(self, m, res):
        return m.ntok >= 2

    def extra_judge(self, sc, plan, res, m):
        return []


def work(prop, ctx, idx, n_plans):
    wr = WorkResult()
    rng = ctx.rng('scn', idx)
    sc = prop.gen_scenario(rng)
    b = ctx.build(sc)
    if not b.ok:
        if b.stage == 'flex':
            wr.refused += 1
            wr.notes.append('scn %d refused by flex: %s' % (idx, b.msg.strip()[-160:]))
        else:
            wr.unbuildable += 1
            wr.notes.append('scn %d unbuildable (%s): %s' % (idx, b.stage, b.msg.strip()[:200]))
        return wr
    wr.scenarios = 1
    wr.stats['back-end:' + sc.flavor] += 1
    plans = []
    for j in range(n_plans):
        prng = ctx.rng('scn', idx, 'plan', j)
        plans.append(('p%d' % j, prop.gen_plan(prng, sc)))
    res = common.run_batch(b.exe, [(k, p.text()) for k, p in plans])
    per_class = collections.Counter()
    for k, p in plans:
        r = res.get(k)
        if r is None:
            continue
        wr.evaluations += 1
        h = r.loghash()
        wr.hashes.add(h)
        m, viols = judge_run(sc, p, r, prop.USE_MATCHER, prop.OVERREAD and sc.is_interactive_mode())
        viols.extend(prop.extra_judge(sc, p, r, m))
        if prop.nontrivial(m, r):
            wr.nontrivial.add(h)
        run_stats(r, p, wr.stats)
        for sk, sv in m.stats.items():
            if sk in PROBE_STATS:
                wr.stats['probe:' + sk] += sv
            elif sk.startswith('fatal:'):
                wr.stats['probe:' + sk] += sv
            else:
                wr.stats[sk] += sv
        if len(wr.samples) < 1 and m.ntok >= 3:
            wr.samples.append({'scenario': idx, 'plan': k, 'flex_args': sc.flex_args(), 'flavor': sc.flavor,
                               'rules': [sc.rule_line(i) for i in range(min(4, len(sc.rules)))],
                               'plan_text': p.text().split('\n')[:14], 'log_excerpt': r.raw[:12]})
        seen = set()
        for v in viols:
            if v.cls in seen:
                continue
            seen.add(v.cls)
            if v.cls not in prop.CLASSES:
                wr.stats['foreign-class:' + v.cls] += 1
                continue
            if per_class[v.cls] >= 2:
                wr.stats['suppressed-duplicates:' + v.cls] += 1
                continue
            case = Case(prop.ID, sc, p, meta={'scn': idx, 'plan': k})
            # triage through evaluate() so that replay applies the same rule
            ctx._builds_hint = b
            ok = [x for x in evaluate(prop, ctx, case)[0] if x.cls == v.cls]
            if not ok:
                wr.stats['foreign-disagreements'] += 1
                continue
            per_class[v.cls] += 1
            wr.findings.append(Finding(v.cls, v.detail, case, v.seq, 'scn %d plan %s' % (idx, k)))
    return wr


def evaluate(prop, ctx, case):
    """the one function used by exploration, shrinking and replay"""
    sc = case.scs['main']
    b = ctx.build(sc)
    if not b.ok:
        return [], {}
    r = common.run_one(b.exe, case.plan.text(), timeout=ctx.run_timeout)
    m, viols = judge_run(sc, case.plan, r, prop.USE_MATCHER, prop.OVERREAD and sc.is_interactive_mode())
    viols.extend(prop.extra_judge(sc, case.plan, r, m))
    out = []
    for v in viols:
        if v.cls not in prop.CLASSES:
            continue
        if v.cls in prop.TRIAGE_CLASSES and getattr(v, 'ctx', None):
            c = v.ctx
            if neutral_token_check(ctx, sc, b, c['held'], c['start'], c['bol'], c['rule'], c['text']) == 'foreign':
                continue
        out.append(v)
    return out, {'main': r}


def probe(prop, ctx, name, sc, plan, cls):
    """directed regression probe for a known finding the generators avoid on
    purpose: returns a Finding when the defect is still there"""
    case = Case(prop.ID, sc, plan, meta={'probe': name})
    viols, runs = evaluate(prop, ctx, case)
    for v in viols:
        if v.cls == cls:
            return [Finding(cls, v.detail, case, v.seq, 'probe ' + name)]
    return []


def features(prop, ctx, case, cls, detail):
    """history predicates of a (minimised) violation, for the known-findings file"""
    sc = case.scs['main']
    b = ctx.build(sc)
    f = {}
    if not b.ok:
        return f
    r = common.run_one(b.exe, case.plan.text(), timeout=ctx.run_timeout)
    m, _ = judge_run(sc, case.plan, r, prop.USE_MATCHER, False)
    f['more_at_source_end'] = 'more-active-at-source-end' in m.notes
    f['array'] = bool(sc.array)
    return f

"""Shared infrastructure: seeds, scratch build of flex from /repo's working
tree, compiling generated scanners against the harness, running plan batches,
parsing event logs."""
from __future__ import annotations
import atexit
import hashlib
import json
import os
import random
import shutil
import signal
import subprocess
import sys
import tempfile
import time

REPO = os.environ.get('VERIF_REPO', '/repo')
VERIF = os.path.dirname(os.path.dirname(os.path.dirname(os.path.abspath(__file__))))
HARNESS = os.path.join(VERIF, 'sim', 'harness')
NCPU = int(os.environ.get('VERIF_JOBS', '0')) or os.cpu_count() or 4

_scratch_dirs = []


def _cleanup():
    for d in _scratch_dirs:
        shutil.rmtree(d, ignore_errors=True)


atexit.register(_cleanup)


def _sig(signum, frame):
    _cleanup()
    os._exit(128 + signum)


def install_signal_cleanup():
    for s in (signal.SIGTERM, signal.SIGINT, signal.SIGHUP):
        try:
            signal.signal(s, _sig)
        except Exception:
            pass


def scratch(prefix='flexsim-'):
    base = '/dev/shm' if os.path.isdir('/dev/shm') and os.access('/dev/shm', os.W_OK) else '/var/tmp'
    d = tempfile.mkdtemp(prefix=prefix, dir=base)
    _scratch_dirs.append(d)
    return d


def rng_for(*parts):
    """hash-independent PRNG named by its path, e.g. rng_for(seed,'C08','scn',3)"""
    return random.Random('/'.join(str(p) for p in parts))


def seed_from_env():
    try:
        return int(os.environ.get('VERIF_SEED', '1'))
    except ValueError:
        return 1


class BuildError(Exception):
    pass


def build_flex(workdir, cflags=None, san=False, log=None):
    """copy /repo's working tree (without .git and tests) into workdir/repo and
    build src/flex there with the repo's own make rules, so that edits to any
    source, skeleton, scan.l or parse.y are honoured.  Returns path of flex."""
    dst = os.path.join(workdir, 'repo-san' if san else 'repo')
    t0 = time.time()
    subprocess.run(['rsync', '-a', '--delete', '--exclude', '.git', '--exclude', '/tests',
                    '--exclude', '/doc', '--exclude', '/po', '--exclude', '/examples',
                    REPO + '/', dst + '/'], check=True)
    # make decides by timestamps; rsync -a preserved them, so only files edited
    # after the last in-tree build are rebuilt.  The guard define is harmless.
    cf = '-g -O1 -DWESTES_FLEX_VERIF'
    env = dict(os.environ)
    if san:
        cf = '-g -O1 -fsanitize=address,undefined -fno-sanitize-recover=undefined -DWESTES_FLEX_VERIF'
        env['ASAN_OPTIONS'] = 'detect_leaks=0'
    if cflags:
        cf += ' ' + cflags
    # force a full rebuild of flex objects: flags differ from the in-tree build
    src = os.path.join(dst, 'src')
    for f in os.listdir(src):
        if f.endswith('.o') or f in ('flex', 'stage1flex', 'stage1scan.c', 'cpp-flex.h', 'c99-flex.h', 'go-flex.h', 'scan.c', 'parse.c', 'parse.h', 'skel.c'):
            try:
                os.unlink(os.path.join(src, f))
            except OSError:
                pass
    # the configured Makefile carries abs_builddir=/repo/src: point it at the copy
    args = ['make', '-C', src, '-j%d' % NCPU, 'flex', 'CFLAGS=' + cf,
            'abs_builddir=' + src, 'abs_srcdir=' + src, 'abs_top_builddir=' + dst, 'abs_top_srcdir=' + dst]
    if san:
        args.append('LDFLAGS=-fsanitize=address,undefined')
    p = subprocess.run(args, env=env, stdout=subprocess.PIPE, stderr=subprocess.STDOUT, text=True)
    if p.returncode != 0 or not os.path.exists(os.path.join(src, 'flex')):
        raise BuildError('building flex from the working tree failed:\n' + p.stdout[-4000:])
    if log:
        log('built flex%s in %.1fs' % (' (sanitizers)' if san else '', time.time() - t0))
    return os.path.join(src, 'flex')


CC = os.environ.get('VERIF_CC', 'clang')
SAN_FLAGS = ['-fsanitize=address,undefined', '-fno-sanitize-recover=undefined', '-fno-omit-frame-pointer']


def compile_driver(workdir, san=True, tsan=False):
    out = os.path.join(workdir, 'drv%s.o' % ('-tsan' if tsan else ('-san' if san else '')))
    if os.path.exists(out):
        return out
    flags = ['-O1', '-g', '-w', '-I', HARNESS]
    if tsan:
        flags += ['-fsanitize=thread']
    elif san:
        flags += SAN_FLAGS
    p = subprocess.run([CC] + flags + ['-c', os.path.join(HARNESS, 'sim_driver.c'), '-o', out],
                       stdout=subprocess.PIPE, stderr=subprocess.STDOUT, text=True)
    if p.returncode != 0:
        raise BuildError('compiling sim_driver.c failed:\n' + p.stdout[-3000:])
    return out


class ScannerBuild:
    """result of building one scenario"""
    def __init__(self):
        self.ok = False
        self.stage = ''      # 'flex' | 'cc' | 'link'
        self.msg = ''
        self.exe = None
        self.flex_stderr = ''
        self.flex_rc = 0
        self.c_path = None
        self.obj = None


def build_scanner(flex, workdir, name, l_text, flex_args, san=True, tsan=False, defines=(), extra_objs=(), cxx=False, link=True, link_cxx=False):
    """flex + cc + link against the driver.  Never raises for scenario-level
    failures: they are reported in the result (flex refusals are legitimate)."""
    r = ScannerBuild()
    d = os.path.join(workdir, name)
    os.makedirs(d, exist_ok=True)
    lp = os.path.join(d, name + '.l')
    cp = os.path.join(d, name + ('.cc' if cxx else '.c'))
    with open(lp, 'w') as f:
        f.write(l_text)
    p = subprocess.run([flex] + list(flex_args) + ['-o', cp, lp], cwd=d,
                       stdout=subprocess.PIPE, stderr=subprocess.PIPE, text=True, errors='replace')
    r.flex_rc = p.returncode
    r.flex_stderr = p.stderr
    r.c_path = cp
    if p.returncode != 0 or not os.path.exists(cp):
        r.stage = 'flex'
        r.msg = p.stderr[-2000:]
        return r
    flags = ['-O0', '-g', '-w', '-I', HARNESS, '-D_GNU_SOURCE'] + ['-D' + x for x in defines]
    if cxx:
        flags += ['-I', os.path.dirname(flex)]    # <FlexLexer.h> of the tree under test
    cov = os.environ.get('VERIF_COV_DIR')
    if cov:
        # reach measurement (tools/skeleton_coverage.py): source-based coverage instead of the sanitizers
        san = tsan = False
        flags += ['-fprofile-instr-generate', '-fcoverage-mapping']
    if tsan:
        flags += ['-fsanitize=thread']
    elif san:
        flags += SAN_FLAGS
    obj = os.path.join(d, name + '.o')
    cc = 'clang++' if cxx else CC
    p = subprocess.run([cc] + flags + ['-c', cp, '-o', obj], stdout=subprocess.PIPE, stderr=subprocess.STDOUT, text=True, errors='replace')
    if p.returncode != 0:
        r.stage = 'cc'
        r.msg = p.stdout[-3000:]
        return r
    r.obj = obj
    if not link:
        r.ok = True
        return r
    drv = compile_driver(workdir, san=san, tsan=tsan)
    exe = os.path.join(d, name)
    lflags = ['-fsanitize=thread'] if tsan else (SAN_FLAGS if san else [])
    if cov:
        lflags = ['-fprofile-instr-generate']
    p = subprocess.run([('clang++' if (cxx or link_cxx) else CC)] + lflags + [obj, drv] + list(extra_objs) + ['-o', exe, '-lpthread'],
                       stdout=subprocess.PIPE, stderr=subprocess.STDOUT, text=True, errors='replace')
    if p.returncode != 0:
        r.stage = 'link'
        r.msg = p.stdout[-3000:]
        return r
    r.ok = True
    r.exe = exe
    return r


# ---------------------------------------------------------------- running
class RunResult:
    __slots__ = ('id', 'events', 'status', 'raw', 'stderr')

    def __init__(self, id):
        self.id = id
        self.events = []
        self.status = None   # 'exit=0', 'exit=77', 'signal=11', ...
        self.raw = []
        self.stderr = ''

    def loghash(self):
        h = hashlib.sha256()
        for l in self.raw:
            h.update(l.encode())
            h.update(b'\n')
        h.update((self.status or '').encode())
        return h.hexdigest()[:16]


REQUIRED = {'T': ('ord', 'rule', 'len', 'start', 'lineno', 'bol', 'buf'), 'E': ('ord', 'rule', 'start', 'lineno', 'buf'),
            'L': ('ret', 'start', 'lineno'), 'R': ('src', 'max', 'ret', 'pos'), 'D': ('live', 'bytes'), 'Z': ('dead', 'live')}


def parse_event(line):
    """'<seq> <inst> <KIND> rest' -> dict"""
    parts = line.split(' ')
    ev = {'seq': int(parts[0]), 'inst': int(parts[1]), 'k': parts[2]}
    k = parts[2]
    rest = parts[3:]
    if k in ('P', 'O', 'W', 'K'):
        ev['idx'] = int(rest[0])
        ev['op'] = rest[1]
        rest = rest[2:]
    elif k == 'F':
        ev['msg'] = ' '.join(rest)
        return ev
    elif k in ('X', 'Q'):
        ev['msg'] = ' '.join(rest)
        return ev
    elif k == 'A':
        ev['what'] = rest[0]
        rest = rest[1:]
    elif k == 'B':
        ev['what'] = rest[0]
        rest = rest[1:]
    for t in rest:
        if '=' in t:
            a, b = t.split('=', 1)
            if a in ('text', 'd', 'id', 'old'):
                ev[a] = b
            else:
                try:
                    ev[a] = int(b)
                except ValueError:
                    ev[a] = b
        else:
            ev.setdefault('flags', []).append(t)
    return ev


# runs ended by the wall-clock backstop (the only thing in a run that is not a function of the seed)
backstop_fired = 0


def run_batch(exe, plans, timeout=8, cwd=None):
    """plans: list of (id, plan_text).  Returns dict id -> RunResult."""
    d = os.path.dirname(exe)
    fd, path = tempfile.mkstemp(prefix='batch-', dir=d)
    with os.fdopen(fd, 'w') as f:
        for pid, text in plans:
            f.write('=== %s\n' % pid)
            f.write(text)
            if not text.endswith('\n'):
                f.write('\n')
    env = None
    if os.environ.get('VERIF_COV_DIR'):
        env = dict(os.environ, LLVM_PROFILE_FILE=os.path.join(d, 'cov-%m.profraw'))
    try:
        p = subprocess.run([exe, '-b', path, '-t', str(timeout)], stdout=subprocess.PIPE, stderr=subprocess.PIPE,
                           cwd=cwd or d, timeout=timeout * len(plans) + 60, env=env)
    finally:
        os.unlink(path)
    out = p.stdout.decode('latin-1').split('\n')
    res = {}
    cur = None
    for line in out:
        if line.startswith('### begin '):
            cur = RunResult(line[10:])
            res[cur.id] = cur
        elif line.startswith('### end '):
            rest = line[8:].rsplit(' ', 1)
            if cur is not None:
                cur.status = rest[1]
            cur = None
        elif cur is not None and line:
            cur.raw.append(line)
    err = p.stderr.decode('latin-1')
    for k in [k for k, r in res.items() if r.status == 'skipped']:
        del res[k]
    global backstop_fired
    for r in res.values():
        r.stderr = err if r.status not in ('exit=0',) else ''
        if r.status == 'signal=14':
            backstop_fired += 1
        if r.status and r.status.startswith('signal=') and r.raw and not r.raw[-1].split(' ')[2:3] == ['Q']:
            # killed without a final flush: the last line may be cut short
            r.raw.pop()
        for l in r.raw:
            try:
                ev = parse_event(l)
                need = REQUIRED.get(ev['k'], ())
                if any(not isinstance(ev.get(k), int) for k in need):
                    # a line cut short by the death of the process (e.g. a sanitizer report raised while
                    # the line was being formatted): nobody may draw conclusions from it
                    ev = {'seq': ev.get('seq', -1), 'inst': ev.get('inst', -1), 'k': '?', 'raw': l}
                r.events.append(ev)
            except Exception:
                r.events.append({'seq': -1, 'inst': -1, 'k': '?', 'raw': l})
    return res


def run_one(exe, plan_text, timeout=8):
    return run_batch(exe, [('x', plan_text)], timeout)['x']


def unhex(s):
    if s == '-' or s is None:
        return b''
    if '~' in s:
        return None   # abbreviated
    return bytes.fromhex(s)


def fnv64(b):
    h = 1469598103934665603
    for c in b:
        h ^= c
        h = (h * 1099511628211) & 0xFFFFFFFFFFFFFFFF
    return h


def hexs(b):
    """mirror of the driver's hexs()"""
    if len(b) == 0:
        return '-'
    if len(b) > 512:
        return b[:32].hex() + '~%016x' % fnv64(b)
    return b.hex()


def harvest_coverage(workdir):
    """coverage builds: summarise, per function of every scanner built under `workdir`, whether it was entered and
    how many of its regions ran; appended to $VERIF_COV_DIR/functions.jsonl (one line per scanner)"""
    cov = os.environ.get('VERIF_COV_DIR')
    if not cov:
        return
    import glob
    for d in glob.glob(os.path.join(workdir, '*')):
        raws = glob.glob(os.path.join(d, 'cov-*.profraw'))
        exe = os.path.join(d, os.path.basename(d))
        if not raws or not os.path.exists(exe):
            continue
        prof = os.path.join(d, 'cov.profdata')
        if subprocess.run(['llvm-profdata-14', 'merge', '-sparse', '-o', prof] + raws, stdout=subprocess.DEVNULL, stderr=subprocess.DEVNULL).returncode != 0:
            continue
        p = subprocess.run(['llvm-cov-14', 'export', '-format=text', '-instr-profile=' + prof, exe], stdout=subprocess.PIPE, stderr=subprocess.DEVNULL)
        if p.returncode != 0:
            continue
        try:
            j = json.loads(p.stdout)
        except Exception:
            continue
        out = {}
        for f in j['data'][0].get('functions', []):
            regs = [r for r in f.get('regions', []) if r[7] == 0]     # code regions
            out[f['name'].split(':')[-1]] = [f.get('count', 0), len(regs), sum(1 for r in regs if r[4] > 0)]
        with open(os.path.join(cov, 'functions-%d.jsonl' % os.getpid()), 'a') as fh:
            fh.write(json.dumps(out) + '\n')

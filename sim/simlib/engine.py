"""Exploration engine shared by all property checks: seeded scenario/plan
generation in a worker pool, verdict -> determinism gate -> shrink -> replay
file -> fresh-process replay -> known-findings -> VIOLATION / KNOWN-FINDING,
and the evidence file."""
from __future__ import annotations
import base64
import collections
import hashlib
import json
import multiprocessing
import os
import pickle
import subprocess
import sys
import time
import traceback

from . import common
from .plan import Plan

# (the two overrides exist for experiments against seeded changes, so that they do not touch the committed evidence)
EVIDENCE_DIR = os.environ.get('VERIF_EVIDENCE_DIR') or os.path.join(common.VERIF, 'evidence')
REPLAY_DIR = os.environ.get('VERIF_REPLAY_DIR') or os.path.join(common.VERIF, 'replays')
KNOWN = os.path.join(common.VERIF, 'known_findings.json')


# ---------------------------------------------------------------- context
class Ctx:
    def __init__(self, prop, tier, seed, workdir, flex, flex_san=None):
        self.prop = prop
        self.tier = tier
        self.seed = seed
        self.workdir = workdir
        self.flex = flex
        self.flex_san = flex_san
        self._builds = {}
        self.run_timeout = 30     # seconds given to one simulated run in evaluate()
        self.pipeline_deadline = time.time() + 3600   # minimisation stops (reports stay gated) after this

    def rng(self, *parts):
        return common.rng_for(self.seed, self.prop, *parts)

    def build(self, sc, tag='', san=True, tsan=False, extra_defines=(), keep=False):
        """build (cached) the scanner of a scenario; returns ScannerBuild"""
        l_text = sc.to_l()
        defines = list(extra_defines)
        if sc.buf_size and sc.flavor != 'c99':
            defines.append('YY_BUF_SIZE=%d' % sc.buf_size)
        key = hashlib.sha1(('\0'.join([l_text, ' '.join(sc.flex_args()), ' '.join(defines), str(san), str(tsan)])).encode()).hexdigest()[:16]
        b = self._builds.get(key)
        if b is None:
            b = common.build_scanner(self.flex, self.workdir, 'b' + key, l_text, sc.flex_args(), san=san, tsan=tsan,
                                     defines=defines, cxx=(sc.flavor == 'cxx'))
            if b.ok and 'dangerous trailing context' in b.flex_stderr:
                # the manual leaves the behaviour of such rule sets undefined
                b.ok = False
                b.stage = 'flex'
                b.msg = 'discarded: flex warns "dangerous trailing context"'
            self._builds[key] = b
        return b

    def build_multi(self, scs, san=True, tsan=False):
        """several scanners (distinct names / prefixes) linked into one
        simulator executable; returns ScannerBuild (stage 'link' on a clash)"""
        key = hashlib.sha1(('\0'.join(sc.to_l() + ' '.join(sc.flex_args()) + str(sc.buf_size) for sc in scs) + str(san) + str(tsan)).encode()).hexdigest()[:16]
        b = self._builds.get(key)
        if b is not None:
            return b
        objs = []
        first = None
        for i, sc in enumerate(scs):
            defines = ['YY_BUF_SIZE=%d' % sc.buf_size] if (sc.buf_size and sc.flavor != 'c99') else []
            last = (i == len(scs) - 1)
            r = common.build_scanner(self.flex, self.workdir, 'm%s_%d' % (key, i), sc.to_l(), sc.flex_args(), san=san, tsan=tsan,
                                     defines=defines, extra_objs=objs if last else (), link=last, cxx=(sc.flavor == 'cxx'),
                                     link_cxx=any(s.flavor == 'cxx' for s in scs))
            if not r.ok:
                self._builds[key] = r
                return r
            if not last:
                objs.append(r.obj)
            first = r
        self._builds[key] = first
        return first

    def drop_builds(self):
        import shutil
        for k, b in self._builds.items():
            d = os.path.join(self.workdir, 'b' + k)
            shutil.rmtree(d, ignore_errors=True)
        self._builds = {}


# ---------------------------------------------------------------- cases
class Case:
    """one unit of judgement: scenario(s) + core plan + variant specs.
    Self-contained and picklable: it is what replay files store."""

    def __init__(self, kind, scs, plan, variants=None, meta=None):
        self.kind = kind
        self.scs = scs if isinstance(scs, dict) else {'main': scs}
        self.plan = plan
        self.variants = variants or {}
        self.meta = meta or {}

    def copy(self):
        c = Case(self.kind, self.scs, self.plan.copy(), json.loads(json.dumps(self.variants)), dict(self.meta))
        return c

    def to_json(self):
        return {
            'kind': self.kind,
            'scenarios': {k: {'l_text': sc.to_l(), 'flex_args': sc.flex_args(), 'buf_size': sc.buf_size,
                              'pickle': base64.b64encode(pickle.dumps(sc)).decode()} for k, sc in self.scs.items()},
            'plan': self.plan.to_json(),
            'plan_text': self.plan.text(),
            'variants': self.variants,
            'meta': self.meta,
        }

    @staticmethod
    def from_json(j):
        scs = {k: pickle.loads(base64.b64decode(v['pickle'])) for k, v in j['scenarios'].items()}
        for sc in scs.values():
            sc._matchers = {}
        return Case(j['kind'], scs, Plan.from_json(j['plan']), j.get('variants', {}), j.get('meta', {}))


class Finding:
    """a violation as reported by a worker"""

    def __init__(self, cls, detail, case, seq=-1, where=''):
        self.cls = cls
        self.detail = detail
        self.case = case
        self.seq = seq
        self.where = where    # e.g. 'scn 12 plan 5'


class WorkResult:
    def __init__(self):
        self.evaluations = 0
        self.hashes = set()
        self.nontrivial = set()
        self.stats = collections.Counter()
        self.findings = []
        self.samples = []
        self.scenarios = 0
        self.refused = 0
        self.unbuildable = 0
        self.notes = []
        self.error = None

    def merge(self, o):
        self.evaluations += o.evaluations
        self.hashes |= o.hashes
        self.nontrivial |= o.nontrivial
        self.stats.update(o.stats)
        self.findings.extend(o.findings)
        if len(self.samples) < 6:
            self.samples.extend(o.samples[:2])
        self.scenarios += o.scenarios
        self.refused += o.refused
        self.unbuildable += o.unbuildable
        self.notes.extend(o.notes[:3])
        if o.error and not self.error:
            self.error = o.error


# ---------------------------------------------------------------- worker pool
_G = {}


def _init_worker(mod_name, tier, seed, workdir, flex, flex_san):
    # the scratch tree belongs to the parent: never clean it from a worker
    del common._scratch_dirs[:]
    import signal
    for s_ in (signal.SIGTERM, signal.SIGINT, signal.SIGHUP):
        signal.signal(s_, signal.SIG_DFL)
    mod = __import__('props.' + mod_name, fromlist=['x'])
    _G['mod'] = mod
    _G['args'] = (tier, seed, workdir, flex, flex_san)


def _work(idx):
    mod = _G['mod']
    tier, seed, workdir, flex, flex_san = _G['args']
    wd = os.path.join(workdir, 'w%d' % idx)
    os.makedirs(wd, exist_ok=True)
    ctx = Ctx(mod.ID, tier, seed, wd, flex, flex_san)
    try:
        common.backstop_fired = 0
        r = mod.work(ctx, idx)
        if hasattr(r, 'stats'):
            r.stats['wallclock-backstop-fired'] += common.backstop_fired
    except Exception:
        r = WorkResult()
        r.error = 'scenario %d: %s' % (idx, traceback.format_exc())
    finally:
        import shutil
        try:
            common.harvest_coverage(wd)
        except Exception:
            pass
        shutil.rmtree(wd, ignore_errors=True)
    return idx, r


# ---------------------------------------------------------------- shrinking
def ddmin_list(items, test, budget):
    """classic ddmin on a list; test(list)->bool (True = still fails)"""
    n = 2
    items = list(items)
    while len(items) >= 1 and budget[0] > 0:
        chunk = max(1, len(items) // n)
        reduced = False
        i = 0
        while i < len(items) and budget[0] > 0:
            cand = items[:i] + items[i + chunk:]
            budget[0] -= 1
            if test(cand):
                items = cand
                n = max(n - 1, 2)
                reduced = True
            else:
                i += chunk
        if not reduced:
            if chunk == 1:
                break
            n = min(len(items), n * 2)
    return items


def shrink_case(case, still_fails, budget=300):
    """greedy + ddmin shrinking of the core plan.  still_fails(case)->bool."""
    bud = [budget]
    best = case.copy()

    def attempt(mut):
        if bud[0] <= 0:
            return False
        c = best.copy()
        try:
            mut(c)
        except Exception:
            return False
        bud[0] -= 1
        if still_fails(c):
            return c
        return None

    # 1. drop whole instances' extras
    for ii in range(len(best.plan.insts)):
        for field in ('acts', 'wraps', 'faults', 'top'):
            cur = getattr(best.plan.insts[ii], field)
            if not cur:
                continue

            def test(lst, ii=ii, field=field):
                c = best.copy()
                setattr(c.plan.insts[ii], field, list(lst))
                return still_fails(c)
            new = ddmin_list(cur, test, bud)
            setattr(best.plan.insts[ii], field, new)
    # 2. shrink source data and schedules
    for si in range(len(best.plan.sources)):
        src = best.plan.sources[si]
        if len(src.data) > 0:
            def test(lst, si=si):
                c = best.copy()
                c.plan.sources[si].data = bytes(lst)
                return still_fails(c)
            new = ddmin_list(list(src.data), test, bud)
            best.plan.sources[si].data = bytes(new)
        if len(src.sched) > 1:
            def test2(lst, si=si):
                if not lst:
                    return False
                c = best.copy()
                c.plan.sources[si].sched = list(lst)
                return still_fails(c)
            new = ddmin_list(list(src.sched), test2, bud)
            best.plan.sources[si].sched = new
    # 3. simplify numeric arguments
    for ii in range(len(best.plan.insts)):
        it = best.plan.insts[ii]
        for k in range(len(it.acts)):
            o, op = it.acts[k]
            for na in (0, 1):
                if op.a > na and bud[0] > 0:
                    def mut(c, ii=ii, k=k, na=na):
                        c.plan.insts[ii].acts[k][1].a = na
                    r = attempt(mut)
                    if r:
                        best = r
                        break
    best.plan.junk_pat = best.plan.junk_pat
    return best, budget - bud[0]


# ---------------------------------------------------------------- known findings
def load_known():
    try:
        with open(KNOWN) as f:
            return json.load(f).get('findings', [])
    except FileNotFoundError:
        return []


def match_known(prop, feats):
    """feats: dict of features of a minimised violation.  Returns the entry
    of the first *open* known finding all of whose match fields agree."""
    for e in load_known():
        if e.get('property') != prop or e.get('status') != 'open':
            continue
        ok = True
        for k, v in e.get('match', {}).items():
            if feats.get(k) != v:
                ok = False
                break
        if ok:
            return e
    return None


# ---------------------------------------------------------------- main driver
def log(msg):
    sys.stderr.write('[%s] %s\n' % (time.strftime('%H:%M:%S'), msg))
    sys.stderr.flush()


def case_hash(case):
    return hashlib.sha1(json.dumps(case.to_json(), sort_keys=True).encode()).hexdigest()[:12]


def run_check(mod, tier, seed, only=None):
    t0 = time.time()
    common.install_signal_cleanup()
    os.makedirs(EVIDENCE_DIR, exist_ok=True)
    os.makedirs(REPLAY_DIR, exist_ok=True)
    # replay files of earlier runs of this check are obsolete
    for fn in os.listdir(REPLAY_DIR):
        if fn.startswith(mod.ID + '-') and fn.endswith('.json'):
            try:
                os.unlink(os.path.join(REPLAY_DIR, fn))
            except OSError:
                pass
    workdir = common.scratch('flexsim-%s-' % mod.ID)
    try:
        if os.environ.get('VERIF_FLEX_OVERRIDE'):
            # sensitivity experiments only: judge a prebuilt flex instead of /repo's tree
            flex = os.environ['VERIF_FLEX_OVERRIDE']
            log('using prebuilt flex %s (VERIF_FLEX_OVERRIDE)' % flex)
        else:
            flex = common.build_flex(workdir, log=log)
        flex_san = None
        if getattr(mod, 'NEEDS_SAN_FLEX', False):
            flex_san = common.build_flex(workdir, san=True, log=log)
    except common.BuildError as e:
        print('ERROR: %s' % e)
        return 2
    cfg = mod.TIERS[tier]
    n_scn = cfg['scenarios']
    wall_cap = int(os.environ.get('VERIF_WALL_CAP') or cfg.get('wall_cap', 3600))    # (seconds of exploration; the env knob only shortens scheduled runs)
    total = WorkResult()
    idxs = list(range(n_scn)) if only is None else list(only)
    nproc = min(common.NCPU, max(1, len(idxs)))
    mod_name = mod.__name__.split('.')[-1]
    capped = False
    with multiprocessing.Pool(nproc, initializer=_init_worker,
                              initargs=(mod_name, tier, seed, workdir, flex, flex_san)) as pool:
        it = pool.imap_unordered(_work, idxs, chunksize=1)
        results = {}
        for idx, r in it:
            results[idx] = r
            if time.time() - t0 > wall_cap:
                capped = True
                pool.terminate()
                break
    for idx in sorted(results):
        total.merge(results[idx])
    if os.environ.get('VERIF_DUMP_HASHES'):
        # debugging aid for tools/determinism_proof.py: which work item diverged
        with open(os.environ['VERIF_DUMP_HASHES'], 'w') as fh:
            for idx in sorted(results):
                fh.write('%s %s\n' % (idx, ' '.join(sorted(str(h) for h in results[idx].hashes))))
    explore_s = time.time() - t0
    log('%s %s: %d scenarios, %d evaluations, %d findings in %.1fs%s' % (
        mod.ID, tier, total.scenarios, total.evaluations, len(total.findings), explore_s, ' (wall cap hit)' if capped else ''))
    if total.error:
        print('ERROR: worker failed:\n' + total.error)
        write_evidence(mod, tier, seed, total, time.time() - t0, 0, [], capped, error=total.error)
        return 2

    # ---- directed probes for known findings the generators avoid on purpose
    probe_lines = []
    ctx = Ctx(mod.ID, tier, seed, os.path.join(workdir, 'post'), flex, flex_san)
    os.makedirs(ctx.workdir, exist_ok=True)
    if hasattr(mod, 'probes'):
        for pr in mod.probes(ctx):
            total.findings.append(pr)

    # ---- violation pipeline
    out_lines = []
    n_viol = 0
    n_known = 0
    seen_classes = collections.Counter()
    reported = set()
    infra = None
    unrepro = []
    findings = sorted(total.findings, key=lambda f: (f.cls, f.where))
    max_per_class = cfg.get('max_per_class', 2 if tier == 'quick' else 3)
    ctx.pipeline_deadline = time.time() + (240 if tier == 'quick' else 900)
    for f in findings:
        if seen_classes[f.cls] >= max_per_class:
            continue
        seen_classes[f.cls] += 1
        try:
            res = process_finding(mod, ctx, f, seed)
        except Exception:
            infra = 'processing finding %s failed: %s' % (f.cls, traceback.format_exc())
            break
        if res['status'] == 'infra':
            # a candidate that does not repeat gives no verdict, but it must not keep the other candidates
            # from being examined (it does not use up the per-class quota either)
            unrepro.append(res['msg'])
            seen_classes[f.cls] -= 1
            if len(unrepro) >= 8:
                break
            continue
        if res['status'] == 'dropped':
            total.stats['dropped:' + res['msg'][:60]] += 1
            continue
        key = (res['status'], res.get('known_id'), res.get('path'))
        if res['status'] == 'known':
            if res['known_id'] not in reported:
                reported.add(res['known_id'])
                out_lines.append('KNOWN-FINDING: property=%s %s (replay=%s)' % (mod.ID, res['what'], res['path']))
            n_known += 1
        else:
            n_viol += 1
            out_lines.append('VIOLATION property=%s replay=%s' % (mod.ID, res['path']))
            out_lines.append('  class=%s %s' % (f.cls, res['detail'][:400]))
    wall = time.time() - t0
    if unrepro and infra is None:
        infra = '%d candidate violation(s) did not repeat; first: %s' % (len(unrepro), unrepro[0])
    write_evidence(mod, tier, seed, total, wall, n_viol, out_lines, capped, known=n_known, error=infra)
    for l in out_lines:
        print(l)
    if infra:
        print('ERROR: infrastructure fault (not a verdict): %s' % infra)
        return 1 if n_viol else 2
    print('%s %s seed=%d: %d scenarios %d evaluations, %d violation(s), %d known finding hit(s), %.1fs' % (
        mod.ID, tier, seed, total.scenarios, total.evaluations, n_viol, n_known, wall))
    return 1 if n_viol else 0


def recheck(mod, ctx, case, cls):
    """does `case` still show a violation of class cls? returns (bool, detail, hash)"""
    viols, runs = mod.evaluate(ctx, case)
    h = hashlib.sha1('|'.join(sorted(r.loghash() for r in runs.values())).encode()).hexdigest()[:12] if runs else ''
    for v in viols:
        if v.cls == cls:
            return True, v.detail, h
    return False, '', h


def process_finding(mod, ctx, f, seed):
    case = f.case
    # determinism gate: three evaluations, identical log hashes and verdicts
    ctx.run_timeout = 20 if f.cls == 'hang' else 30
    r1 = recheck(mod, ctx, case, f.cls)
    r2 = recheck(mod, ctx, case, f.cls)
    if f.cls == 'tsan-race' and not (r1[0] and r2[0]):
        # free-running mode is runtime monitoring, not simulation: whether ThreadSanitizer sees the
        # two accesses unordered depends on the real schedule.  Confirm on 3 of up to 6 attempts.
        hits = int(r1[0]) + int(r2[0])
        for _ in range(4):
            rr = recheck(mod, ctx, case, f.cls)
            hits += int(rr[0])
            if rr[0]:
                r1 = r2 = rr
            if hits >= 3:
                break
        if hits < 3:
            return {'status': 'dropped', 'msg': 'ThreadSanitizer report reproduced only %d times in 6 attempts' % hits}
    if f.cls == 'hang' and not r1[0] and not r2[0]:
        # the run finished when given more time: the machine was busy
        return {'status': 'dropped', 'msg': 'time-out did not reproduce when the plan was run alone with a 20 s cap'}
    if not r1[0] or not r2[0] or r1[2] != r2[2]:
        return {'status': 'infra', 'msg': 'violation %s (%s) did not reproduce deterministically: %s / %s' % (f.cls, f.where, r1, r2)}
    # shrink
    budget = getattr(mod, 'SHRINK_BUDGET', 250)
    if getattr(mod, 'SHRINKABLE', True) and not case.meta.get('probe') and f.cls != 'hang' and time.time() < ctx.pipeline_deadline:
        # candidates get a short time-out and the whole minimisation a wall-clock cap
        ctx.run_timeout = 8
        deadline = min(ctx.pipeline_deadline, time.time() + getattr(mod, 'SHRINK_SECONDS', 45))

        def still(c):
            if time.time() > deadline:
                return False
            return recheck(mod, ctx, c, f.cls)[0]
        small, used = shrink_case(case, still, budget)
    else:
        small, used = case, 0
    ctx.run_timeout = 20 if f.cls == 'hang' else 30
    ok, detail, h = recheck(mod, ctx, small, f.cls)
    if not ok:
        small = case
        ok, detail, h = recheck(mod, ctx, small, f.cls)
    feats = {'class': f.cls}
    if case.meta.get('probe'):
        feats['probe'] = case.meta['probe']
    if hasattr(mod, 'features'):
        feats.update(mod.features(ctx, small, f.cls, detail))
    rep = {
        'property': mod.ID, 'class': f.cls, 'detail': detail, 'seed': seed, 'where': f.where,
        'loghash': h, 'features': feats, 'shrink_evaluations': used, 'case': small.to_json(),
    }
    path = os.path.join(REPLAY_DIR, '%s-%s.json' % (mod.ID, case_hash(small)))
    with open(path, 'w') as fh:
        json.dump(rep, fh, indent=1)
    # fresh-process replay through the public replay command
    p = subprocess.run([sys.executable, os.path.join(common.VERIF, 'sim', 'check.py'), '--replay', path, '--flex', ctx.flex],
                       stdout=subprocess.PIPE, stderr=subprocess.PIPE, text=True)
    if 'REPRODUCED' not in p.stdout:
        return {'status': 'infra', 'msg': 'fresh-process replay of %s did not reproduce: %s %s' % (path, p.stdout[-500:], p.stderr[-500:])}
    e = match_known(mod.ID, feats)
    if e is not None:
        return {'status': 'known', 'known_id': e['id'], 'what': e['what'], 'path': path, 'detail': detail}
    return {'status': 'violation', 'path': path, 'detail': detail}


def replay(path, flex=None):
    with open(path) as fh:
        rep = json.load(fh)
    mod = __import__('props.' + rep['property'].lower(), fromlist=['x'])
    workdir = common.scratch('flexsim-replay-')
    if flex is None or not os.path.exists(flex):
        flex = common.build_flex(workdir, log=log)
    flex_san = None
    ctx = Ctx(mod.ID, 'quick', rep.get('seed', 1), workdir, flex, flex_san)
    case = Case.from_json(rep['case'])
    ok, detail, h = recheck(mod, ctx, case, rep['class'])
    if os.environ.get('VERIF_SHOW'):
        viols, runs = mod.evaluate(ctx, case)
        seqs = [v.seq for v in viols if v.cls == rep['class']]
        s0 = seqs[0] if seqs else -1
        span = int(os.environ.get('VERIF_SHOW'))
        for name, r in runs.items():
            print('--- run %s status=%s' % (name, r.status))
            for l in r.raw:
                q = int(l.split()[0])
                if s0 < 0 or s0 - span <= q <= s0 + 5:
                    print(l)
            if r.stderr:
                print(r.stderr[:1500])
    if ok:
        same = (h == rep.get('loghash'))
        print('REPRODUCED property=%s class=%s loghash=%s%s' % (rep['property'], rep['class'], h, '' if same else ' (log differs from recorded %s)' % rep.get('loghash')))
        print('  ' + detail[:600])
        print('VIOLATION property=%s replay=%s' % (rep['property'], path))
        return 1
    print('NOT-REPRODUCED property=%s class=%s' % (rep['property'], rep['class']))
    return 0


def write_evidence(mod, tier, seed, total, wall, n_viol, lines, capped, known=0, error=None):
    stats = dict(sorted(total.stats.items()))
    faults = {k[6:]: v for k, v in stats.items() if k.startswith('fault:')}
    probes = {k[6:]: v for k, v in stats.items() if k.startswith('probe:')}
    other = {k: v for k, v in stats.items() if not k.startswith('fault:') and not k.startswith('probe:')}
    zero_probes = [p for p in getattr(mod, 'EXPECTED_PROBES', []) if probes.get(p, 0) == 0]
    ev = {
        'property_id': mod.ID,
        'tier': tier,
        'seed': seed,
        'level': mod.LEVEL,
        'wall_s': round(wall, 2),
        'violations': n_viol,
        'coverage': {
            'evaluations': total.evaluations,
            'distinct_nontrivial': len(total.nontrivial),
            'rule': mod.RULE,
            'samples': total.samples[:6] or ['(no case was run)'],
            'scenarios_built': total.scenarios,
            'scenarios_refused_by_flex': total.refused,
            'scenarios_unbuildable': total.unbuildable,
            'distinct_event_logs': len(total.hashes),
            'event_log_digest': hashlib.sha256('|'.join(sorted(str(h) for h in total.hashes)).encode()).hexdigest()[:24],
            'runs_per_hour': int(total.evaluations / wall * 3600) if wall > 0 else 0,
            'simulated_time': 'not applicable: neither flex nor its scanners read a clock',
            'faults_injected': faults,
            'reach_probes': probes,
            'reach_probes_at_zero': zero_probes,
            'counters': other,
            'wall_cap_hit': capped,
            'known_finding_hits': known,
            'components': getattr(mod, 'COMPONENTS', {}),
            'report': lines[:20],
        },
        'assumptions': getattr(mod, 'ASSUMPTIONS', []),
    }
    if error:
        ev['coverage']['infrastructure_error'] = error[:2000]
    with open(os.path.join(EVIDENCE_DIR, mod.ID + '.json'), 'w') as fh:
        json.dump(ev, fh, indent=1)

"""Reference model: a history checker over the simulator's event log.

The model is a small executable specification of what the flex manual says a
scanner does with its input stream.  It knows nothing about flex internals:
bytes delivered by reads (R events) are appended to the current buffer's
unread text; token events (T) are compared with the independent matcher's
prediction on that unread text; ops (O/P/W events) edit the stream exactly as
the manual documents.  Each disagreement is a violation with a *class*; the
property checks decide which classes belong to them.
"""
from __future__ import annotations
from . import common

NL = 10


class Viol:
    __slots__ = ('cls', 'seq', 'detail', 'ctx')

    def __init__(self, cls, seq, detail, ctx=None):
        self.cls = cls
        self.seq = seq
        self.detail = detail
        self.ctx = ctx

    def __repr__(self):
        return '%s@%d: %s' % (self.cls, self.seq, self.detail)


class Buf:
    def __init__(self, h, src=-1, size=0, kind='file'):
        self.h = h
        self.src = src
        self.size = size          # size given at creation (0 = unknown/default)
        self.kind = kind          # 'file' | 'mem'
        self.held = bytearray()   # delivered or pushed back, not yet consumed
        self.eof = False          # source said "end" and yywrap not yet consulted
        self.bol = True
        self.lineno = 1
        self.delivered = 0
        self.pushes = 0
        self.live = True
        self.fill = True          # scanner may read for it
        self.user_owned = False
        self.bol_known = True
        self.pending_src = None   # source named by a top-level `yyin = f` not yet acted upon


LEGIT_FATAL_PUSHBACK = 'flex scanner push-back overflow'
LEGIT_FATAL_REJECT = "input buffer overflow, can't enlarge buffer because scanner uses yyreject()"
LEGIT_FATAL_REJECT_PREFIX = "input buffer overflow, can't enlarge buffer because scanner uses"
FATAL_UNDERFLOW = 'start-condition stack underflow'
FATAL_YYLMAX = 'token too large, exceeds YYLMAX'
FATAL_YYLMAX_PREFIX = 'token too large, exceeds'


class Model:
    def __init__(self, sc, plan, inst=0, default_buf_size=16384, use_matcher=True, yylmax=8192):
        self.sc = sc
        self.plan = plan
        self.inst = inst
        self.use_matcher = use_matcher and sc.model_safe()
        self.default_buf_size = sc.buf_size or default_buf_size
        self.yylmax = getattr(sc, 'yylmax', None) or yylmax
        self.viol = []
        self.stats = {}
        self.notes = set()
        # scanner-wide state
        self.start = 0
        self.cstack = []
        self.bufs = {}
        self.bstack = []          # handles, top = current
        self.orphan = bytearray() # bytes read before the implicit buffer is known
        self.orphan_eof = False
        self.g_lineno = 1         # non-reentrant: one global counter
        self.lineno_known = True
        # token state
        self.yytext = b''
        self.tok_new = b''
        self.more_next = False
        self.more_prefix = b''
        self.alts = None
        self.alt_idx = 0
        self.rejecting = False
        self.in_action = False
        self.is_eof_action = False
        self.action_did_unput = False
        self.inputs_in_action = 0
        self.cur_ord = -1
        self.dead = False
        self.fatal = None
        self.last_wrap_ret = None
        self.lex_returns = []
        self.tokens = []          # (rule, text-hex, start, buf) as logged
        self.ntok = 0
        self.wraps = 0
        self.reads = 0
        self.pending_fault = None
        self.lost_prefix_ok = False
        self.top_op = None
        self.after_destroy = False
        self.lexed_once = False
        self.expect_init = sc.flavor != 'nr'
        self.overread = []        # (ord, extra requests)
        self.reads_window = []    # unread-byte counts seen by each read request since the last token
        self.check_overread = False

    # ------------------------------------------------------------ helpers
    def v(self, cls, ev, detail, ctx=None):
        self.viol.append(Viol(cls, ev.get('seq', -1), detail, ctx))

    def stat(self, k, n=1):
        self.stats[k] = self.stats.get(k, 0) + n

    def cur(self):
        if not self.bstack:
            return None
        return self.bufs.get(self.bstack[-1])

    def lineno(self):
        if self.sc.flavor in ('nr', 'cxx'):
            return self.g_lineno
        b = self.cur()
        return b.lineno if b else None

    def add_lineno(self, d):
        if not self.sc.lineno:
            return
        if self.sc.flavor in ('nr', 'cxx'):
            self.g_lineno += d
        else:
            b = self.cur()
            if b:
                b.lineno += d

    def check_lineno(self, ev, where):
        got = ev.get('lineno')
        if got is None or got < 0:
            return
        exp = self.lineno()
        if exp is None or not self.lineno_known:
            return
        if got != exp:
            self.v('lineno', ev, '%s: yylineno=%d expected %d' % (where, got, exp))
            # resynchronise so that one defect is reported once
            if self.sc.flavor in ('nr', 'cxx'):
                self.g_lineno = got
            elif self.cur():
                self.cur().lineno = got

    def check_start(self, ev, where):
        got = ev.get('start')
        if got is None:
            return
        if got != self.start:
            self.v('start', ev, '%s: yystart()=%d expected %d' % (where, got, self.start))
            self.start = got

    # ------------------------------------------------------------ events
    def run(self, events):
        for ev in events:
            if ev.get('inst', -1) not in (self.inst, -1):
                continue
            k = ev['k']
            f = getattr(self, 'ev_' + k, None)
            if f is not None:
                try:
                    f(ev)
                except (KeyError, IndexError, TypeError):
                    # a log line cut short by the death of the simulated process
                    self.stat('malformed-event')
        return self.viol

    def ev_H(self, ev):
        pass

    def ev_S(self, ev):
        pass

    def ev_K(self, ev):
        pass

    def ev_Q(self, ev):
        if ev.get('msg') not in ('done',):
            self.v('abort', ev, 'run ended: %s' % ev.get('msg'))

    def ev_X(self, ev):
        msg = ev.get('msg', '')
        if msg.startswith('curbuf-mismatch'):
            self.v('curbuf', ev, msg)
        else:
            self.v('ledger', ev, msg)

    def ev_A(self, ev):
        if 'FAIL' in ev.get('flags', []):
            self.pending_fault = ('alloc', ev['seq'])
            self.stat('alloc-fail')

    def ev_Z(self, ev):
        pass

    def ev_D(self, ev):
        if ev.get('live', 0) != 0 and ev.get('tables', 0) == 0:
            self.v('leak', ev, 'after yylex_destroy: %d allocations (%d bytes) still live' % (ev['live'], ev.get('bytes', 0)))
        # fresh scanner
        self.start = 0
        self.cstack = []
        for h in list(self.bstack):
            self.bufs[h].live = False
        self.bstack = []
        self.g_lineno = 1
        self.more_next = False
        self.after_destroy = True
        self.lexed_once = False

    def ev_F(self, ev):
        msg = ev.get('msg', '')
        self.dead = True
        self.fatal = msg
        self.stat('fatal:' + msg)
        if self.pending_fault is not None:
            return   # consequence of an injected fault: judged by the C14 check
        b = self.cur()
        if msg == FATAL_UNDERFLOW:
            if self.expect_underflow:
                return
            self.v('fatal', ev, 'stack underflow reported with %d entries on the model stack' % len(self.cstack))
            return
        if msg == LEGIT_FATAL_PUSHBACK:
            size = b.size if b and b.size else self.default_buf_size
            if b and b.delivered + b.pushes + 2 > size:
                self.stat('legit-pushback-overflow')
                return
            self.v('fatal', ev, 'push-back overflow with %d delivered + %d pushed in a %d-byte buffer' % (
                b.delivered if b else -1, b.pushes if b else -1, size))
            return
        if msg.startswith(LEGIT_FATAL_REJECT_PREFIX):
            size = b.size if b and b.size else self.default_buf_size
            need = len(b.held if b else self.orphan) + len(self.yytext) + self.inputs_in_action + len(self.more_prefix)
            if need >= size - 1:
                self.stat('legit-reject-overflow')
                return
            self.v('fatal', ev, 'REJECT buffer overflow with only %d bytes to hold in a %d-byte buffer' % (need, size))
            return
        if msg.startswith(FATAL_YYLMAX_PREFIX) and self.sc.array:
            b = self.cur()
            pre = len(self.yytext) if self.more_next else (len(self.more_prefix) if self.rejecting else 0)
            need = len(b.held if b else self.orphan) + pre
            if need + 1 >= self.yylmax:
                self.stat('legit-yylmax')
                return
        self.v('fatal', ev, 'unexpected fatal error: %s' % msg)

    # ---- reads
    def ev_R(self, ev):
        self.reads += 1
        cb = self.cur()
        self.reads_window.append(len(cb.held) if cb is not None else len(self.orphan))
        ret = ev.get('ret', 0)
        flags = ev.get('flags', [])
        b = self.cur()
        if 'EINTR' in flags or 'EIO' in flags:
            self.stat('read-' + ('EINTR' if 'EINTR' in flags else 'EIO'))
            if 'EIO' in flags:
                self.pending_fault = ('eio', ev['seq'])
            return
        src = self.plan.sources[ev['src']]
        pos = ev['pos']
        data = src.data[pos - ret:pos] if ret > 0 else b''
        if b is None:
            if self.orphan_eof and ret >= 0:
                pass
            self.orphan += data
            if ret == 0:
                self.orphan_eof = True
            return
        if b.pending_src is not None and ev.get('src', -1) >= 0:
            if ev['src'] != b.pending_src:
                self.v('stream', ev, 'yyin was pointed at source %d, the scanner reads source %d' % (b.pending_src, ev['src']))
            b.src = ev['src']
            b.pending_src = None
        if b.kind == 'file' and ev.get('src', -1) >= 0:
            b.src = ev['src']      # (which stream a buffer reads is taken from the log; only a `yyin = f` directly
                                   # followed by yylex is checked, above)
        if b.eof:
            if self.sc.flavor == 'cxx' and not self.sc.user_input:
                # yyFlexLexer::LexerInput on a std::istream: read() has to run into the end of the stream to
                # return a short block, the lexer is told only the count, and every rdbuf() (buffer switch,
                # restart) clears the stream state - a second look at an ended stream is inherent there
                self.stat('cxx-istream-read-after-end')
                if ret > 0:
                    b.eof = False
            else:
                self.v('read-after-eof', ev, 'source read again after it reported end of input and before yywrap was consulted')
        if ret == 0:
            b.eof = True
            self.stat('eof-ind' if 'EOFIND' in flags else 'eof-end')
            if len(b.held) > 0 or (self.in_action is False and self.more_next):
                self.stat('eof-with-pending-text')
        else:
            b.held += data
            b.delivered += ret
            if len(b.held) > ret:
                self.stat('refill-with-partial-token')

    # ---- buffers
    def ev_B(self, ev):
        what = ev.get('what')
        if what == 'implicit':
            h = ev['h']
            b = Buf(h, ev.get('src', -1), self.default_buf_size)
            b.held = self.orphan
            b.delivered = len(self.orphan)
            b.eof = self.orphan_eof
            self.orphan = bytearray()
            self.orphan_eof = False
            self.bufs[h] = b
            if self.bstack:
                self.v('curbuf', ev, 'implicit buffer while model has a current buffer')
            self.bstack = [h]
        elif what == 'new':
            h = ev['h']
            op = self.top_op_code()
            b = Buf(h, ev.get('src', -1))
            self.bufs[h] = b
            pend = self.pending_create
            self.pending_create = None
            if pend is not None:
                b.size = pend.get('size', 0)
                if pend.get('mem') is not None:
                    b.kind = 'mem'
                    b.held = bytearray(pend['mem'])
                    b.delivered = len(b.held)
                    b.size = len(b.held)
                    b.fill = False
                    b.eof = True     # nothing more will ever be read
                    b.user_owned = pend.get('user', False)
            how = ev.get('how', 0)
            if how == 1:
                self._switch(h)
            elif how == 2:
                self._push(h)
        elif what == 'replaced':
            # C++ switch_streams(): the current buffer is deleted with whatever it
            # still holds; a new buffer on the given source takes its place
            old = ev.get('old', -1)
            if old in self.bufs:
                self.bufs[old].live = False
                if self.bufs[old].held:
                    self.stat('switch-streams-discarded-unread-text')
            h = ev['h']
            self.bufs[h] = Buf(h, ev.get('src', -1))
            self._switch(h)
            self.stat('op-switch-streams')
        elif what == 'create-null':
            pend = self.pending_create
            self.pending_create = None
            if pend is not None and not pend.get('expect_null'):
                self.v('api', ev, 'buffer creation returned NULL')
            elif pend is not None:
                self.stat('scan-buffer-null-ok')

    pending_create = None
    expect_underflow = False

    def top_op_code(self):
        return self.top_op

    def _save_cur(self):
        pass

    def _drop_pending_src(self):
        b = self.cur()
        if b is not None:
            b.pending_src = None

    def _switch(self, h):
        self._drop_pending_src()
        if self.bstack:
            self.bstack[-1] = h
        else:
            self.bstack = [h]
        self._entered_buffer()

    def _push(self, h):
        self._drop_pending_src()
        if self.bstack:
            self.bstack.append(h)
        else:
            self.bstack = [h]
        self._entered_buffer()

    def _pop(self):
        if self.bstack:
            h = self.bstack.pop()
            self.bufs[h].live = False
        self._entered_buffer()

    def _entered_buffer(self):
        # yytext belongs to the buffer that was left; what a pending yymore()
        # means now is not documented: the prefix may be kept or dropped
        if self.more_next:
            self.lost_prefix_ok = True
        self.rejecting = False

    # ---- ops (top level P, in action O, yywrap W)
    def ev_P(self, ev):
        self.top_op = ev['op']
        self.in_action = False
        if ev['op'] not in ('LEX', 'SET_YYIN'):
            # a `yyin = f` is only followed up when yylex is the next thing called: flushing, switching,
            # restarting ... reload yyin from the current buffer or replace it (yyrestart(yyin) uses it)
            b = self.cur()
            if b is not None and b.pending_src is not None:
                if ev['op'] == 'RESTART' and ev.get('h', -1) < 0:
                    b.src = b.pending_src
                b.pending_src = None
        self.pending_fault = None if self.pending_fault is None else self.pending_fault
        self.apply_op(ev, 'top')

    def ev_O(self, ev):
        self._drop_pending_src()       # (an op inside an action may reload yyin from the buffer)
        self.apply_op(ev, 'act')

    def ev_W(self, ev):
        self.wraps += 1
        if self.more_next or (self.in_action and len(self.more_prefix) > 0):
            # yytext carries (or is about to carry) a yymore() prefix while
            # the end of a source is being processed
            self.notes.add('more-active-at-source-end')
        if self.more_next and not self.expect_input and not self.sc.array:
            # yylex() has reached the end of the source with a yymore() pending.  With %pointer
            # the kept text lives in the buffer, which is restarted now: the text is dropped
            # (with %array it lives in yytext and is kept)
            self.more_next = False
            self.stat('more-prefix-dropped-at-source-end')
        b = self.cur()
        held = b.held if b else self.orphan
        eof = b.eof if b else self.orphan_eof
        if len(held) > 0:
            self.v('wrap-with-pending', ev, 'yywrap consulted while %d delivered bytes are not yet tokenised' % len(held))
        if not eof:
            self.v('wrap-without-eof', ev, 'yywrap consulted although the source did not report end of input')
        if b:
            b.eof = False if b.fill else True
            if b.fill:
                b.bol = True  # the scanner restarted the buffer on reaching its end
            else:
                # an exhausted in-memory buffer: whether its flag is reset
                # depends on the path taken (yylex / yyinput); nothing more
                # will be matched from it, so the flag is of no consequence
                b.bol_known = False
        else:
            self.orphan_eof = False
        self.wrap_op = ev
        if ev['op'] != 'STOP':
            if self.more_next or (self.in_action and False):
                self.lost_prefix_ok = True
            self.apply_op(ev, 'wrap')

    def apply_op(self, ev, ctx):
        op = ev['op']
        a = ev.get('a', 0)
        b = self.cur()
        self.expect_underflow = False
        if op == 'INIT':
            self.pending_init = True
        elif op == 'LEX':
            self.reads_window = []
            if not self.lexed_once:
                # the first yylex call of a scanner (re)loads yyin from the current buffer, if the caller
                # has made one: a `yyin = f` issued after that buffer was made is overridden
                self.lexed_once = True
                self._drop_pending_src()
        elif op == 'LESS':
            n = a
            if n > len(self.yytext) or (n < len(self.more_prefix) and self.sc.array):
                self.v('harness', ev, 'yyless(%d) outside [%d,%d]' % (n, len(self.more_prefix), len(self.yytext)))
                return
            if n < len(self.more_prefix):
                # %pointer: part of the text kept by yymore() goes back to the input as well
                self.more_prefix = self.more_prefix[:n]
                self.stat('less-into-more-prefix')
            back = self.yytext[n:]
            if b is not None:
                b.held = bytearray(back) + b.held
            self.add_lineno(-back.count(b'\n'))
            self.yytext = self.yytext[:n]
            self.tok_new = self.yytext[len(self.more_prefix):]
            self.expect_less = True
            self.stat('op-less')
        elif op == 'UNPUT':
            if b is not None:
                b.held = bytearray([a]) + b.held
                b.pushes += 1
            if a == NL:
                self.add_lineno(-1)
            self.action_did_unput = True
            self.stat('op-unput')
        elif op == 'INPUT':
            self.expect_input = True
            self.stat('op-input')
        elif op == 'MORE':
            self.more_next = True
            self.stat('op-more')
        elif op == 'REJECT':
            if b is not None:
                b.held = bytearray(self.tok_new) + b.held
            self.add_lineno(-self.tok_new.count(b'\n'))
            self.rejecting = True
            self.alt_idx += 1
            self.stat('op-reject')
        elif op == 'BEGIN':
            self.start = a
            self.stat('op-begin')
        elif op == 'PUSH_STATE':
            self.cstack.append(self.start)
            self.start = a
            if len(self.cstack) > 25:
                self.stat('start-stack-grown')
            self.stat('op-push-state')
        elif op == 'POP_STATE':
            if not self.cstack:
                self.expect_underflow = True
                self.stat('pop-empty-stack')
            else:
                self.start = self.cstack.pop()
            self.stat('op-pop-state')
        elif op == 'TOP_STATE':
            self.expect_top = True
        elif op in ('GET_STATE', 'NOP', 'GET_LINENO', 'SET_INTERACTIVE', 'TERMINATE', 'RETURN', 'STOP'):
            if op == 'GET_LINENO':
                self.expect_getlineno = True
        elif op == 'SET_LINENO':
            if self.sc.flavor in ('nr', 'cxx'):
                self.g_lineno = a
            elif b is not None:
                b.lineno = a
        elif op == 'SETBOL':
            if b is not None:
                b.bol = bool(a)
        elif op in ('CREATE_BUF', 'PUSHNEW', 'SWITCHNEW'):
            self.pending_create = {'size': a}
            self.stat('op-' + op.lower())
        elif op == 'SWITCH':
            h = ev.get('h')
            if h is not None and h >= 0 and not (self.bstack and self.bstack[-1] == h):
                self._switch(h)
            self.stat('op-switch')
        elif op == 'PUSH_BUF':
            h = ev.get('h')
            self._push(h)
            if len(self.bstack) > 1:
                self.stat('buffer-stack-depth>1')
            if len(self.bstack) > 9:
                self.stat('buffer-stack-grown-twice')
            self.stat('op-push-buf')
        elif op == 'POP_BUF':
            self._pop()
            self.stat('op-pop-buf')
        elif op == 'FLUSH':
            h = ev.get('h')
            fb = self.bufs.get(h)
            if fb is not None:
                if len(fb.held):
                    self.stat('flush-dropped-bytes', len(fb.held))
                fb.held = bytearray()
                fb.bol = True
                fb.eof = False if fb.kind == 'file' else True
                if fb is b and self.more_next:
                    self.lost_prefix_ok = True
            self.stat('op-flush')
        elif op == 'DELETE':
            h = ev.get('h')
            if h in self.bufs:
                self.bufs[h].live = False
        elif op in ('SCAN_BYTES', 'SCAN_STRING', 'SCAN_BUFFER'):
            d = common.unhex(ev.get('d')) or b''
            if op == 'SCAN_STRING' and b'\0' in d:
                d = d[:d.index(b'\0')]
            expect_null = op == 'SCAN_BUFFER' and a in (1, 2, 3)
            self.pending_create = {'mem': d, 'user': op == 'SCAN_BUFFER', 'expect_null': expect_null}
            if op == 'SCAN_BUFFER':
                self.expect_scanbuf = not expect_null
            self.stat('op-' + op.lower())
        elif op in ('RESTART', 'NEWFILE'):
            if b is not None:
                if len(b.held):
                    self.stat('restart-dropped-bytes', len(b.held))
                b.held = bytearray()
                b.bol = True
                b.eof = False
                b.kind = 'file'
                b.fill = True
                b.pending_src = None
                if ev.get('h', -1) >= 0:
                    b.src = ev['h']
                if self.more_next:
                    self.lost_prefix_ok = True   # unspecified: kept or dropped
            else:
                self.expect_implicit = True
            self.stat('op-' + op.lower())
        elif op == 'SET_YYIN':
            if ctx == 'top' and b is not None and a != 2 and ev.get('h', -1) >= 0:
                # "yyin = f" between two yylex calls (before the first one or after the end of input): the
                # current buffer adopts that stream when the scanner next looks at it; a buffer switch before
                # that drops the assignment (yyin is reloaded from the buffer that becomes current)
                b.pending_src = ev['h']
            if ctx == 'wrap':
                # yywrap returned 0 without switching buffers: the scanner
                # restarts the current buffer on the new yyin
                if b is not None:
                    b.held = bytearray()
                    b.bol = True
                    b.eof = False
                    b.src = ev.get('h', -1)
                    if ev.get('h', -1) >= 0:
                        b.pending_src = ev['h']      # the very next read has to come from there
                    if b.kind == 'mem':
                        # the scanner now reads the stream into the buffer it
                        # allocated for the yy_scan_bytes/yy_scan_string copy
                        b.kind = 'file'
                        b.fill = True
                        self.stat('mem-buffer-continued-from-yyin')
            self.stat('op-set-yyin')
        elif op == 'DESTROY':
            pass
        elif op in ('TABLES_LOAD', 'TABLES_DESTROY'):
            pass
        else:
            self.v('harness', ev, 'model does not know op %s' % op)

    pending_init = False
    expect_less = False
    expect_input = False
    expect_top = False
    expect_getlineno = False
    expect_scanbuf = None
    expect_implicit = False
    wrap_op = None

    # ---- results
    def ev_V(self, ev):
        if 'less' in ev.get('flags', []):
            exp = common.hexs(self.yytext)
            if ev.get('text') != exp or ev.get('len') != len(self.yytext):
                self.v('less', ev, 'after yyless: yytext=%s len=%s, expected %s len=%d' % (ev.get('text'), ev.get('len'), exp, len(self.yytext)))
            return
        if 'input' in ev:
            self.on_input(ev)
            return
        if 'st' in ev.get('flags', []):
            self.check_start(ev, 'after op %s' % self.top_op)
            self.check_lineno(ev, 'after op')
            b = self.cur()
            if b is not None and ev.get('bol', -1) >= 0 and self.sc.bol_needed():
                if not b.bol_known:
                    b.bol = bool(ev['bol'])
                if bool(ev['bol']) != b.bol:
                    self.v('bol', ev, 'yyatbol()=%d expected %d' % (ev['bol'], b.bol))
                    b.bol = bool(ev['bol'])
            return
        if 'top' in ev:
            exp = self.cstack[-1] if self.cstack else self.start
            if ev['top'] != exp:
                self.v('start', ev, 'yy_top_state()=%d expected %d' % (ev['top'], exp))
            return
        if 'state' in ev:
            if ev['state'] != self.start:
                self.v('start', ev, 'yystart()=%d expected %d' % (ev['state'], self.start))
            return
        if 'wrap' in ev:
            self.last_wrap_ret = ev['wrap']
            self.check_start(ev, 'in yywrap')
            return
        if 'init' in ev:
            if ev['init'] != 0 and self.pending_fault is None:
                self.v('api', ev, 'yylex_init returned %d without an injected fault' % ev['init'])
            return
        if 'lineno' in ev and 'flags' not in ev:
            exp = self.lineno()
            if exp is not None and self.lineno_known and self.cur() is not None and ev['lineno'] != exp:
                self.v('lineno', ev, 'yyget_lineno()=%d expected %d' % (ev['lineno'], exp))
            return
        if 'scanbuf' in ev:
            if self.expect_scanbuf is not None and bool(ev['scanbuf']) != self.expect_scanbuf:
                self.v('api', ev, 'yy_scan_buffer returned %s, expected %s' % (
                    'a buffer' if ev['scanbuf'] else 'NULL', 'a buffer' if self.expect_scanbuf else 'NULL'))
            self.expect_scanbuf = None
            return

    def on_input(self, ev):
        v = ev['input']
        self.expect_input = False
        b = self.cur()
        self.inputs_in_action += 1
        if self.check_overread:
            extra = [n for n in self.reads_window if n > 0]
            if extra:
                self.v('overread', ev, 'yyinput() requested input %d time(s) while unread input was available' % len(extra))
        self.reads_window = []
        if b is None:
            return
        if len(b.held) > 0:
            exp = b.held[0]
            if v != exp:
                self.v('input', ev, 'yyinput() returned %d, next unread byte is %d' % (v, exp))
            del b.held[0]
            if exp == NL:
                self.add_lineno(1)
            if self.sc.bol_needed():
                b.bol = (exp == NL)
            if exp == 0:
                self.stat('input-nul')
        else:
            # end of input: legitimate only after yywrap said so
            if v != 0:
                self.v('input', ev, 'yyinput() returned %d although no input remains' % v)
            elif self.last_wrap_ret != 1:
                self.v('input', ev, 'yyinput() reported end of input without yywrap agreeing')
            self.last_wrap_ret = None
            self.stat('input-at-eof')

    # ---- tokens
    def ev_T(self, ev):
        self.ntok += 1
        if self.cur() is not None and self.cur().pending_src is not None and ev.get('seq', 0) >= 0:
            # text was still buffered when yyin was re-pointed: the assignment only matters once the scanner
            # reads again, and by then other things may have happened; followed up only when the read comes first
            self._drop_pending_src()
        self.in_action = True
        self.is_eof_action = False
        self.action_did_unput = False
        self.inputs_in_action = 0
        b = self.cur()
        if b is None:
            self.v('curbuf', ev, 'token delivered with no current buffer in the model')
            return
        if ev.get('buf', -1) != b.h:
            self.v('curbuf', ev, 'token attributed to buffer %s, model says %d' % (ev.get('buf'), b.h))
        rule = ev['rule']
        tlen = ev['len']
        thex = ev.get('text')
        self.tokens.append((rule, thex, ev.get('start'), b.h, ev['seq']))
        self.check_start(ev, 'at action entry')
        prefix = self.yytext if self.more_next else b''
        was_more = self.more_next
        if was_more and self.lost_prefix_ok:
            self.resync_lineno = True
        if self.rejecting:
            prefix = self.more_prefix
        self.more_next = False
        # --- what does the reference matcher say?
        exp_ok = False
        if not self.use_matcher and len(b.held) == 0 and tlen > len(prefix):
            self.v('phantom', ev, 'token %s delivered although no unread input exists' % thex)
            return
        if self.use_matcher:
            bolv = b.bol if not self.rejecting else self.tok_bol
            if not self.rejecting:
                m = self.sc.matcher(self.start, bolv)
                matches, examined, hit_end = m.scan(bytes(b.held))
                if examined == 0 and len(b.held) > 0:
                    # no user rule is active here, but the default rule still has to see one character
                    examined = 1
                self.tok_bol = bolv
                alts = []
                for total, rules in matches:
                    for rid in rules:
                        alts.append((total, rid))
                alts.sort(key=lambda x: (-x[0], x[1]))
                alts.append((1, 0))
                self.alts = alts
                self.alt_idx = 0
                self.tok_examined = examined
                self.tok_hit_end = hit_end
                if self.check_overread:
                    extra = [n for n in self.reads_window if n > examined or (n == examined and not hit_end)]
                    if extra:
                        self.v('overread', ev, 'token needs %d byte(s) examined%s; %d request(s) were issued with %s unread bytes already available (last examined byte %s)' % (
                            examined, ' plus the end indication' if hit_end else '', len(extra), extra,
                            '%02x' % b.held[examined - 1] if 0 < examined <= len(b.held) else '-'))
                if hit_end and not b.eof:
                    self.v('premature', ev, 'token decided after %d bytes although a longer match was still possible and the source had not ended' % len(b.held))
            if self.alt_idx >= len(self.alts):
                self.v('reject-exhausted', ev, 'model has no alternative left')
                total, rid = 1, 0
            else:
                total, rid = self.alts[self.alt_idx]
            if len(b.held) == 0:
                self.v('phantom', ev, 'token %s delivered although no unread input exists' % thex)
                return
            if rid == 0:
                etlen = 1
                erule = 0
            else:
                r = self.sc.rules[rid - 1]
                etlen = r.text_len(total)
                erule = self.sc.action_id(rid)
            etext = bytes(prefix) + bytes(b.held[:etlen])
            if rule != erule or thex != common.hexs(etext) or tlen != len(etext):
                if was_more and self.lost_prefix_ok and rule == erule and thex == common.hexs(bytes(b.held[:etlen])):
                    # yymore prefix dropped when yywrap supplied a new source: unspecified
                    prefix = b''
                    etext = bytes(b.held[:etlen])
                    self.stat('more-prefix-dropped-at-wrap')
                elif (rule == erule and common.unhex(thex) is not None and len(prefix) > 0
                      and common.unhex(thex).endswith(bytes(b.held[:etlen])) and tlen < len(etext) and not self.rejecting):
                    # right rule, right new text, but the text kept by yymore() is not (all) there
                    self.v('more', ev, 'yymore prefix %s not kept: yytext=%s len=%d, expected %s len=%d' % (
                        common.hexs(bytes(prefix)), thex, tlen, common.hexs(etext), len(etext)))
                    raw1 = common.unhex(thex)
                    prefix = raw1[:len(raw1) - etlen]
                    etext = raw1
                else:
                    raw0 = common.unhex(thex)
                    tctx = None
                    if not self.rejecting and raw0 is not None and raw0[:len(prefix)] == bytes(prefix):
                        tctx = {'held': bytes(b.held), 'start': self.start, 'bol': bool(bolv), 'rule': rule,
                                'text': common.hexs(raw0[len(prefix):])}
                    self.v('token-after-reject' if self.rejecting else 'token', ev,
                           'rule=%d text=%s len=%d; model expects rule=%d text=%s len=%d (start=%d bol=%d%s)' % (
                               rule, thex, tlen, erule, common.hexs(etext), len(etext), self.start, bolv,
                               ' after REJECT' if self.rejecting else ''), tctx)
                    # resynchronise on what the scanner says it consumed
                    raw = common.unhex(thex)
                    if raw is None:
                        self.dead = True
                        return
                    etext = raw
                    etlen = max(0, len(raw) - len(prefix))
            new = etext[len(prefix):]
            del b.held[:len(new)]
            exp_ok = True
        else:
            raw = common.unhex(thex)
            cands = [bytes(prefix)]
            if was_more and self.lost_prefix_ok:
                # unspecified: kept or dropped.  When both readings fit the log,
                # prefer what the implementation does (the %pointer prefix lives
                # in the buffer that was just flushed; the %array one in yytext)
                cands = [bytes(prefix), b''] if self.sc.array else [b'', bytes(prefix)]
            chosen = None
            for pf in cands:
                nl_ = tlen - len(pf)
                if nl_ < 1:
                    continue     # every token has at least one new character
                cand_text = pf + bytes(b.held[:nl_])
                if len(cand_text) == tlen and common.hexs(cand_text) == thex:
                    chosen = pf
                    break
            if chosen is None:
                pf = bytes(prefix)
                if raw is not None and was_more and raw[:len(pf)] != pf:
                    self.v('more', ev, 'yymore prefix %s not kept: yytext=%s' % (common.hexs(pf), thex))
                else:
                    self.v('stream', ev, 'token text %s (after a %d-byte yymore prefix) is not the next unread input %s' % (
                        thex, len(pf), common.hexs(bytes(b.held[:max(0, tlen - len(pf))]))))
                if raw is None:
                    self.dead = True
                    return
                # resynchronise on the scanner's own account
                if raw[:len(pf)] != pf:
                    pf = b''
                prefix = pf
                etext = raw
                new = raw[len(pf):]
            else:
                if was_more and self.lost_prefix_ok:
                    self.resync_lineno = True
                if chosen != bytes(prefix):
                    self.stat('more-prefix-dropped-at-wrap')
                prefix = chosen
                new = bytes(b.held[:tlen - len(chosen)])
                etext = chosen + new
            del b.held[:len(new)]
        self.lost_prefix_ok = False
        self.yytext = bytes(etext)
        self.more_prefix = bytes(prefix)
        self.tok_new = bytes(new)
        self.rejecting = False
        if self.sc.bol_needed() and len(self.yytext) > 0:
            b.bol = (self.yytext[-1] == NL)
        if len(prefix):
            self.stat('token-with-more-prefix')
        if rule == 0:
            self.stat('default-rule-token')
        if b.size and len(self.yytext) > b.size:
            self.stat('token-longer-than-buffer')
        if 0 in new:
            self.stat('token-contains-nul')
        # lineno: newlines of the new part are now consumed
        self.add_lineno(new.count(b'\n'))
        if self.resync_lineno and ev.get('lineno') is not None:
            # the token followed an unspecified situation (yymore pending at a
            # source change): take the scanner's count as the new base
            self.resync_lineno = False
            if self.sc.flavor in ('nr', 'cxx'):
                self.g_lineno = ev['lineno']
            elif self.cur():
                self.cur().lineno = ev['lineno']
        self.check_lineno(ev, 'at action entry')
        if self.sc.bol_needed() and ev.get('bol', -1) >= 0:
            # logged at action entry, i.e. after YY_RULE_SETUP updated it
            if bool(ev['bol']) != b.bol:
                self.v('bol', ev, 'yyatbol()=%d at action entry, expected %d' % (ev['bol'], b.bol))
        self.reads_window = []

    tok_bol = False
    resync_lineno = False
    tok_examined = 0
    tok_hit_end = False

    def ev_E(self, ev):
        self.in_action = True
        self.is_eof_action = True
        self.check_start(ev, 'at <<EOF>> action')
        if self.last_wrap_ret != 1:
            self.v('eof', ev, '<<EOF>> action ran without yywrap having returned 1')
        exp = self.sc.eof_rule(self.start)
        if exp is None:
            self.v('eof', ev, '<<EOF>> action %d ran in condition %d which has none' % (ev['rule'], self.start))
        elif ev['rule'] != exp:
            self.v('eof', ev, '<<EOF>> action %d ran in condition %d, expected action %d' % (ev['rule'], self.start, exp))
        self.last_wrap_ret = None
        self.stat('eof-action')

    def ev_L(self, ev):
        self.in_action = False
        ret = ev['ret']
        self.lex_returns.append(ret)
        self.check_start(ev, 'after yylex')
        if self.cur() is not None:
            self.check_lineno(ev, 'after yylex returned')
        if ret == 0:
            self.stat('lex-returned-0')
            if self.last_wrap_ret == 1:
                # default EOF action: legal only when the condition has no rule
                exp = self.sc.eof_rule(self.start)
                if exp is not None:
                    self.v('eof', ev, 'yylex returned 0 without running <<EOF>> action %d of condition %d' % (exp, self.start))
            self.last_wrap_ret = None
        self.reads_window = []

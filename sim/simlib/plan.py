"""Plans: explicit, shrinkable descriptions of one simulated run."""
from __future__ import annotations
import copy


class Op:
    __slots__ = ('name', 'a', 'b', 'd')

    def __init__(self, name, a=0, b=0, d=None):
        self.name = name
        self.a = a
        self.b = b
        self.d = d

    def text(self):
        s = self.name
        if self.a:
            s += ' a=%d' % self.a
        if self.b:
            s += ' b=%d' % self.b
        if self.d is not None:
            s += ' d=%s' % (self.d.hex() if len(self.d) else '-')
        return s

    def __repr__(self):
        return self.text()

    def to_json(self):
        return [self.name, self.a, self.b, self.d.hex() if self.d is not None else None]

    @staticmethod
    def from_json(j):
        return Op(j[0], j[1], j[2], bytes.fromhex(j[3]) if j[3] is not None else None)


class Source:
    def __init__(self, data=b'', sched=None, kind='user', inst=0, vbuf=0):
        self.data = bytes(data)
        self.sched = list(sched) if sched else []   # ints, or 'E','I','X'
        self.kind = kind
        self.inst = inst
        self.vbuf = vbuf

    def text(self, i):
        s = 'src %d inst=%d kind=%s data=%s' % (i, self.inst, self.kind, self.data.hex() if self.data else '-')
        if self.sched:
            s += ' sched=' + ','.join(str(x) for x in self.sched)
        if self.vbuf:
            s += ' vbuf=%d' % self.vbuf
        return s

    def to_json(self):
        return {'data': self.data.hex(), 'sched': self.sched, 'kind': self.kind, 'inst': self.inst, 'vbuf': self.vbuf}

    @staticmethod
    def from_json(j):
        return Source(bytes.fromhex(j['data']), j['sched'], j['kind'], j['inst'], j.get('vbuf', 0))


class Inst:
    def __init__(self, scn='*'):
        self.scn = scn
        self.top = []      # [Op]
        self.acts = []     # [(ord, Op)] sorted by ord
        self.wraps = []    # [Op]
        self.faults = []   # [(topidx, nth)]

    def to_json(self):
        return {'scn': self.scn, 'top': [o.to_json() for o in self.top],
                'acts': [[k, o.to_json()] for k, o in self.acts],
                'wraps': [o.to_json() for o in self.wraps], 'faults': [list(f) for f in self.faults]}

    @staticmethod
    def from_json(j):
        i = Inst(j['scn'])
        i.top = [Op.from_json(o) for o in j['top']]
        i.acts = [(k, Op.from_json(o)) for k, o in j['acts']]
        i.wraps = [Op.from_json(o) for o in j['wraps']]
        i.faults = [tuple(f) for f in j['faults']]
        return i


class Plan:
    def __init__(self):
        self.junk_seed = 1
        self.junk_pat = 0
        self.sources = []
        self.insts = [Inst()]
        self.sched = []
        self.freerun = 0
        self.max_events = 200000
        self.max_lex = 100000
        self.allow = 0
        self.tfiles = []     # [{'parts': [...], 'trunc': n, 'chunk': n, 'eio': n, 'flip': [(off, xor)]}]; paths bound at run time
        self.tpaths = {}     # part name -> path (not serialised)

    def copy(self):
        return copy.deepcopy(self)

    def text(self):
        o = ['junk %d %d' % (self.junk_seed, self.junk_pat),
             'limit %d %d' % (self.max_events, self.max_lex)]
        if self.freerun:
            o.append('freerun 1')
        if self.allow:
            o.append('allow %d' % self.allow)
        for i, t in enumerate(self.tfiles):
            l = 'tfile %d path=%s' % (i, '+'.join(self.tpaths.get(x, x) for x in t['parts']))
            if t.get('trunc') is not None:
                l += ' trunc=%d' % t['trunc']
            if t.get('chunk'):
                l += ' chunk=%d' % t['chunk']
            if t.get('eio') is not None:
                l += ' eio=%d' % t['eio']
            if t.get('flip'):
                l += ' flip=' + ','.join('%d:%d' % (a, b) for a, b in t['flip'])
            o.append(l)
        for i, s in enumerate(self.sources):
            o.append(s.text(i))
        for i, it in enumerate(self.insts):
            o.append('inst %d %s' % (i, it.scn))
        for i, it in enumerate(self.insts):
            for op in it.top:
                o.append('top %d %s' % (i, op.text()))
            for k, op in sorted(it.acts, key=lambda x: x[0]):
                o.append('act %d %d %s' % (i, k, op.text()))
            for op in it.wraps:
                o.append('wrap %d %s' % (i, op.text()))
            for t, n in it.faults:
                o.append('fault alloc %d %d %d' % (i, t, n))
        if self.sched:
            o.append('sched ' + ','.join(str(x) for x in self.sched))
        return '\n'.join(o) + '\n'

    def to_json(self):
        return {'junk_seed': self.junk_seed, 'junk_pat': self.junk_pat,
                'sources': [s.to_json() for s in self.sources],
                'insts': [i.to_json() for i in self.insts], 'sched': self.sched,
                'freerun': self.freerun, 'max_events': self.max_events, 'max_lex': self.max_lex, 'allow': self.allow, 'tfiles': self.tfiles}

    @staticmethod
    def from_json(j):
        p = Plan()
        p.junk_seed = j['junk_seed']
        p.junk_pat = j['junk_pat']
        p.sources = [Source.from_json(s) for s in j['sources']]
        p.insts = [Inst.from_json(i) for i in j['insts']]
        p.sched = j['sched']
        p.freerun = j.get('freerun', 0)
        p.max_events = j.get('max_events', 200000)
        p.max_lex = j.get('max_lex', 100000)
        p.allow = j.get('allow', 0)
        p.tfiles = j.get('tfiles', [])
        return p


# ---------------------------------------------------------------- generators
def gen_input(rng, alphabet, n, stray=0.05):
    out = bytearray()
    for _ in range(n):
        if rng.random() < stray:
            out.append(rng.randrange(256))
        else:
            out.append(rng.choice(alphabet))
    return bytes(out)


def gen_sched(rng, style=None):
    """read-size schedule"""
    style = style or rng.choice(['all', 'one', 'rand', 'rand', 'mixed'])
    if style == 'all':
        return [1 << 20]
    if style == 'one':
        return [1]
    if style == 'rand':
        k = rng.choice([2, 3, 5, 9, 17, 100])
        return [rng.randint(1, k) for _ in range(rng.randint(1, 12))]
    return [rng.choice([1, 1, 2, 3, 7, 8, 64, 1 << 20]) for _ in range(rng.randint(1, 8))]

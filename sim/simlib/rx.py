"""Regular-expression AST owned by the scenario generator, its printer in flex
syntax, and an independent matcher (Thompson NFA + lazily built DFA).

The matcher is the reference model's predictor of tokenisation.  It knows
nothing about flex internals: it is compiled from the same AST the .l text is
printed from.
"""
from __future__ import annotations

ALL = frozenset(range(256))
NL = 10


# ---------------------------------------------------------------- AST
def lit(bs):
    return ('lit', bytes(bs))


def cls(s):
    return ('cls', frozenset(s))


def dot():
    return ('cls', ALL - {NL})


def cat(*xs):
    return ('cat', list(xs))


def alt(*xs):
    return ('alt', list(xs))


def star(x):
    return ('rep', x, 0, None)


def plus(x):
    return ('rep', x, 1, None)


def opt(x):
    return ('rep', x, 0, 1)


def rep(x, lo, hi):
    return ('rep', x, lo, hi)


def nullable(n):
    k = n[0]
    if k == 'lit':
        return len(n[1]) == 0
    if k == 'cls':
        return False
    if k == 'cat':
        return all(nullable(x) for x in n[1])
    if k == 'alt':
        return any(nullable(x) for x in n[1])
    if k == 'rep':
        return n[2] == 0 or nullable(n[1])
    raise ValueError(k)


def fixed_len(n):
    """length of every string of L(n) if they all have the same length, else None"""
    k = n[0]
    if k == 'lit':
        return len(n[1])
    if k == 'cls':
        return 1
    if k == 'cat':
        t = 0
        for x in n[1]:
            f = fixed_len(x)
            if f is None:
                return None
            t += f
        return t
    if k == 'alt':
        fs = {fixed_len(x) for x in n[1]}
        if len(fs) == 1:
            return fs.pop()
        return None
    if k == 'rep':
        f = fixed_len(n[1])
        if f is None or n[3] is None or n[2] != n[3]:
            if f == 0:
                return 0
            return None
        return f * n[2]
    raise ValueError(k)


def syn_fixed_len(n):
    """flex's own, purely syntactic notion (parse.y: varlength / rulelen):
    any alternation or repetition operator makes the part variable-length"""
    k = n[0]
    if k == 'lit':
        return len(n[1])
    if k == 'cls':
        return 1
    if k == 'cat':
        t = 0
        for x in n[1]:
            f = syn_fixed_len(x)
            if f is None:
                return None
            t += f
        return t
    return None


def bytes_used(n, acc=None):
    if acc is None:
        acc = set()
    k = n[0]
    if k == 'lit':
        acc.update(n[1])
    elif k == 'cls':
        acc.update(n[1])
    elif k in ('cat', 'alt'):
        for x in n[1]:
            bytes_used(x, acc)
    elif k == 'rep':
        bytes_used(n[1], acc)
    return acc


def can_match_nl(n):
    return NL in bytes_used(n)


def relabel(n, perm):
    """apply a byte permutation (dict) to every literal and class"""
    k = n[0]
    if k == 'lit':
        return ('lit', bytes(perm.get(b, b) for b in n[1]))
    if k == 'cls':
        return ('cls', frozenset(perm.get(b, b) for b in n[1]))
    if k in ('cat', 'alt'):
        return (k, [relabel(x, perm) for x in n[1]])
    if k == 'rep':
        return ('rep', relabel(n[1], perm), n[2], n[3])
    raise ValueError(k)


# ---------------------------------------------------------------- printer
def _esc(b):
    return '\\x%02x' % b


def _print_cls(s, style):
    """style: 0 positive ranges, 1 negated ranges (when the complement is not
    empty), 2 positive, listed singly.  '.' is printed for [^\\n] when style==3."""
    s = frozenset(s)
    if style == 3 and s == ALL - {NL}:
        return '.'
    if style == 4 and s == ALL:
        return '(?s:.)'
    neg = False
    body = s
    if style == 1 and s != ALL:
        neg = True
        body = ALL - s
    items = sorted(body)
    out = []
    if style == 2 or len(items) < 3:
        out = [_esc(b) for b in items]
    else:
        i = 0
        while i < len(items):
            j = i
            while j + 1 < len(items) and items[j + 1] == items[j] + 1:
                j += 1
            if j - i >= 2:
                out.append(_esc(items[i]) + '-' + _esc(items[j]))
            else:
                out.extend(_esc(b) for b in items[i:j + 1])
            i = j + 1
    return '[' + ('^' if neg else '') + ''.join(out) + ']'


def to_flex(n, styles=None):
    """print the AST in flex pattern syntax, fully parenthesised.
    styles: optional callable(node) -> class print style"""
    k = n[0]
    if k == 'lit':
        return ''.join(_esc(b) for b in n[1])
    if k == 'cls':
        st = styles(n) if styles else 0
        return _print_cls(n[1], st)
    if k == 'cat':
        return ''.join(_wrap(x, styles) for x in n[1])
    if k == 'alt':
        return '(' + '|'.join(to_flex(x, styles) for x in n[1]) + ')'
    if k == 'rep':
        inner = '(' + to_flex(n[1], styles) + ')'
        lo, hi = n[2], n[3]
        if (lo, hi) == (0, None):
            return inner + '*'
        if (lo, hi) == (1, None):
            return inner + '+'
        if (lo, hi) == (0, 1):
            return inner + '?'
        if hi is None:
            return inner + '{%d,}' % lo
        if lo == hi:
            return inner + '{%d}' % lo
        return inner + '{%d,%d}' % (lo, hi)
    raise ValueError(k)


def _wrap(x, styles):
    s = to_flex(x, styles)
    if x[0] == 'alt':
        return s
    if x[0] == 'cat':
        return '(' + s + ')'
    return s


# ---------------------------------------------------------------- NFA
class NFA:
    """Thompson NFA for a whole rule set.  States are ints; eps[s] = list of
    states; tr[s] = (byteset, target) or None; acc[s] = rule index or -1."""

    def __init__(self):
        self.eps = []
        self.tr = []
        self.acc = []

    def new(self):
        self.eps.append([])
        self.tr.append(None)
        self.acc.append(-1)
        return len(self.eps) - 1

    def build(self, n):
        """returns (start, end)"""
        k = n[0]
        if k == 'lit':
            s = self.new()
            cur = s
            for b in n[1]:
                t = self.new()
                self.tr[cur] = (frozenset((b,)), t)
                cur = t
            return s, cur
        if k == 'cls':
            s = self.new()
            t = self.new()
            self.tr[s] = (n[1], t)
            return s, t
        if k == 'cat':
            s = self.new()
            cur = s
            for x in n[1]:
                a, b = self.build(x)
                self.eps[cur].append(a)
                cur = b
            return s, cur
        if k == 'alt':
            s = self.new()
            e = self.new()
            for x in n[1]:
                a, b = self.build(x)
                self.eps[s].append(a)
                self.eps[b].append(e)
            return s, e
        if k == 'rep':
            lo, hi = n[2], n[3]
            s = self.new()
            cur = s
            for _ in range(lo):
                a, b = self.build(n[1])
                self.eps[cur].append(a)
                cur = b
            if hi is None:
                a, b = self.build(n[1])
                e = self.new()
                self.eps[cur].append(a)
                self.eps[cur].append(e)
                self.eps[b].append(a)
                self.eps[b].append(e)
                return s, e
            e = self.new()
            self.eps[cur].append(e)
            for _ in range(hi - lo):
                a, b = self.build(n[1])
                self.eps[cur].append(a)
                self.eps[b].append(e)
                cur = b
            return s, e
        raise ValueError(k)

    def closure(self, states):
        seen = set(states)
        stack = list(states)
        while stack:
            s = stack.pop()
            for t in self.eps[s]:
                if t not in seen:
                    seen.add(t)
                    stack.append(t)
        return frozenset(seen)


class Matcher:
    """Matches a list of patterns (each a (pattern_node, rule_id) pair) at
    the start of a byte string.  One Matcher per (start condition, bol)."""

    def __init__(self, pats):
        self.nfa = NFA()
        starts = []
        for node, rid in pats:
            a, b = self.nfa.build(node)
            self.nfa.acc[b] = rid
            starts.append(a)
        self.start = self.nfa.closure(starts)
        self.ids = {self.start: 0}
        self.sets = [self.start]
        self.trans = [dict()]
        self.accs = [self._accs(self.start)]
        self.live = [self._has_out(self.start)]

    def _accs(self, S):
        return tuple(sorted({self.nfa.acc[s] for s in S if self.nfa.acc[s] >= 0}))

    def _has_out(self, S):
        return any(self.nfa.tr[s] is not None and len(self.nfa.tr[s][0]) > 0 for s in S)

    def step(self, sid, b):
        t = self.trans[sid].get(b)
        if t is not None:
            return t
        S = self.sets[sid]
        nxt = [self.nfa.tr[s][1] for s in S if self.nfa.tr[s] is not None and b in self.nfa.tr[s][0]]
        if not nxt:
            self.trans[sid][b] = -1
            return -1
        T = self.nfa.closure(nxt)
        tid = self.ids.get(T)
        if tid is None:
            tid = len(self.sets)
            self.ids[T] = tid
            self.sets.append(T)
            self.trans.append(dict())
            self.accs.append(self._accs(T))
            self.live.append(self._has_out(T))
        self.trans[sid][b] = tid
        return tid

    def scan(self, data, pos=0):
        """run from data[pos:].  Returns (matches, examined, hit_end) where
        matches is a list of (length, (rule ids...)) for every length > 0 at
        which some rule accepts, in increasing length; examined is the number
        of bytes looked at before no longer match was possible; hit_end is
        True when the walk stopped only because data ran out (more input
        could extend the match)."""
        sid = 0
        matches = []
        i = pos
        n = len(data)
        while True:
            if not self.live[sid]:
                return matches, i - pos, False
            if i >= n:
                return matches, i - pos, True
            t = self.step(sid, data[i])
            i += 1
            if t < 0:
                return matches, i - pos, False
            sid = t
            if self.accs[sid]:
                matches.append((i - pos, self.accs[sid]))

"""Scenario = rule set + start conditions + flex configuration.  Generated
swarm-style from a seeded PRNG; printed as a .l file for a given API flavour;
compiled into per-(condition, bol) Matchers for the reference model."""
from __future__ import annotations
import os
import random
from . import rx

NL = 10
TABLE_OPTS = ['', '-Cem', '-Ce', '-Cm', '-C', '-Cf', '-CF', '-Cae', '-Caf', '-CaF', '-Ca', '-Cfe', '-CFe', '-Cfae', '-CFae', '-Caem']


class Rule:
    rpat = None     # printed head pattern / trailing context, once rendered
    rtrail = None
    ident = None    # number passed to SIM_ACTION instead of the position (flattened scenarios of C05 part B)

    def __init__(self, pat=None, conds=None, bol=False, trail=None, eol=False, is_eof=False, star=False):
        self.pat = pat          # head pattern
        self.trail = trail      # trailing context pattern or None
        self.eol = eol          # '$'
        self.bol = bol          # '^'
        self.conds = conds      # list of condition indices (>=1) / [] for none
        self.star = star        # <*>
        self.is_eof = is_eof
        self.bar = False        # action is '|' (falls through to next rule's action)
        self.styles = {}

    def full_pattern(self):
        if self.trail is not None:
            return rx.cat(self.pat, self.trail)
        if self.eol:
            return rx.cat(self.pat, rx.lit(b'\n'))
        return self.pat

    def trail_node(self):
        if self.trail is not None:
            return self.trail
        if self.eol:
            return rx.lit(b'\n')
        return None

    def text_len(self, total):
        """length of yytext for a match of total length `total`; None if the
        split is not determined by lengths (variable head and trail)"""
        t = self.trail_node()
        if t is None:
            return total
        hf = rx.syn_fixed_len(self.pat)
        if hf is not None:
            return hf
        tf = rx.syn_fixed_len(t)
        if tf is not None:
            return total - tf
        return None

    def is_vtc(self):
        t = self.trail_node()
        return t is not None and rx.syn_fixed_len(self.pat) is None and rx.syn_fixed_len(t) is None


class Scenario:
    # class-level defaults keep replay files written by earlier versions loadable
    yylmax = None
    prefix = None
    tables_file = False
    tables_verify = False
    use_read = False
    user_input = True
    extra_opts = ()
    scoped = False      # print rules that name conditions inside (nested) start-condition scopes

    def __init__(self):
        self.name = 's0'
        self.conds = [('INITIAL', False)]   # (name, exclusive)
        self.rules = []                      # Rule list; rule id = index+1
        self.flavor = 'nr'
        self.tables = ''
        self.bits = 8
        self.interactive = None   # None | 'interactive' | 'batch' | 'always-interactive' | 'never-interactive'
        self.array = False
        self.lineno = True
        self.reject = False
        self.yymore = True
        self.stack = True
        self.use_read = False
        self.user_input = True
        self.buf_size = None      # -DYY_BUF_SIZE
        self.prefix = None
        self.yylmax = None        # %option yylmax (only meaningful with %array)
        self.tables_file = False
        self.tables_verify = False
        self.alphabet = [97, 98, 99]
        self.extra_opts = []
        self._matchers = {}

    # -------- semantics
    def nconds(self):
        return len(self.conds)

    def bol_needed(self):
        return any(r.bol for r in self.rules if not r.is_eof)

    def active(self, cond, bol):
        """(pattern, rule id) pairs active in condition index `cond`"""
        excl = self.conds[cond][1]
        out = []
        for i, r in enumerate(self.rules):
            if r.is_eof:
                continue
            if r.bol and not bol:
                continue
            if r.star or cond in r.conds or (not r.conds and not excl):
                out.append((r.full_pattern(), i + 1))
        return out

    def matcher(self, cond, bol):
        if not self.bol_needed():
            bol = False
        key = (cond, bool(bol))
        m = self._matchers.get(key)
        if m is None:
            m = rx.Matcher(self.active(cond, bol))
            self._matchers[key] = m
        return m

    def eof_rule(self, cond):
        """rule id of the <<EOF>> rule for the condition, or None (default)"""
        own = None
        unq = None
        for i, r in enumerate(self.rules):
            if not r.is_eof:
                continue
            if r.star or cond in r.conds:
                if own is None:
                    own = i + 1
            elif not r.conds and unq is None:
                unq = i + 1
        return own if own is not None else unq

    def default_rule_id(self):
        """rule number under which matches of the default rule are logged; the c99 back end's yyecho() cannot
        be hooked, so there the generator always appends a catch-all rule and REJECT is never issued from it"""
        if self.flavor == 'c99':
            return len(self.rules) if self.rules and self.c99_catchall else 0
        return 0

    c99_catchall = False

    def has_trailing(self):
        return any(r.trail_node() is not None for r in self.rules if not r.is_eof)

    def has_vtc(self):
        # a trailing-context rule preceded by a '|' rule is made variable by flex
        for i, r in enumerate(self.rules):
            if r.is_eof:
                continue
            if r.is_vtc():
                return True
            if r.trail_node() is not None and i > 0 and self.rules[i - 1].bar:
                return True
            if r.bar and r.trail_node() is not None:
                return True
        return False

    def action_id(self, rid):
        """rule number logged when rule `rid` matches: a '|' rule runs the
        action of the next rule that has one"""
        i = rid - 1
        while i < len(self.rules) and self.rules[i].bar:
            i += 1
        return i + 1

    def model_safe(self):
        """the independent matcher predicts this scenario exactly"""
        if self.has_vtc():
            return False
        if self.reject and self.has_trailing():
            return False
        if any(r.bar for r in self.rules) and self.has_trailing():
            return False
        return True

    def fulltbl(self):
        return 'f' in self.tables or 'F' in self.tables

    def is_interactive_mode(self):
        if self.interactive in ('interactive', 'always-interactive'):
            return True
        if self.interactive in ('batch', 'never-interactive'):
            return False
        return not self.fulltbl()

    # -------- printing
    def flex_args(self):
        a = []
        if self.tables:
            a.append(self.tables)
        if self.bits == 7:
            a.append('-7')
        else:
            a.append('-8')
        return a

    def cond_name(self, i):
        return self.conds[i][0]

    def c99_action(self, k):
        """the c99 back end rewrites yytext, yyleng, yylineno, yystart(), yyatbol(), yybegin(), yyunput(),
        yyinput(), yymore(), yyless(), yyreject(), yyterminate() lexically inside action text, so the
        interpreter of sim_pre.h's SIM_ACTION is written out literally here"""
        o = ['{ sim_xop sim_x; int sim_go = 1; int sim_a; int sim_c;',
             '  sim_enter(%d, 0, yytext, yyleng, yystart(), yylineno, yyatbol(), (void *) yy_current_buffer(yyscanner));' % k,
             '  while (sim_go) { switch (sim_next_op(&sim_x)) {',
             '    case SOP_END: sim_go = 0; break;',
             '    case SOP_LESS: sim_a = (int) sim_x.a; yyless(sim_a); sim_res_text("less", yytext, yyleng); break;',
             '    case SOP_UNPUT: sim_a = (int) sim_x.a; yyunput(sim_a); sim_res_state(yystart(), yylineno, yyatbol()); break;',
             '    case SOP_INPUT: sim_c = yyinput(); sim_res_int("input", sim_c); sim_res_state(yystart(), yy_current_buffer(yyscanner) ? yylineno : -1, yy_current_buffer(yyscanner) ? yyatbol() : -1); break;']
        if self.yymore:
            o.append('    case SOP_MORE: yymore(); break;')
        if self.reject:
            o.append('    case SOP_REJECT: sim_leave(); yyreject();')
        o += ['    case SOP_BEGIN: sim_a = (int) sim_x.a; yybegin(sim_a); break;']
        if self.stack:
            o += ['    case SOP_PUSH_STATE: yy_push_state((int) sim_x.a, yyscanner); break;',
                  '    case SOP_POP_STATE: yy_pop_state(yyscanner); break;',
                  '    case SOP_TOP_STATE: sim_res_int("top", yy_top_state(yyscanner)); break;']
        o += ['    case SOP_GET_STATE: sim_res_int("state", yystart()); break;',
              '    case SOP_RETURN: sim_leave(); return (int) sim_x.a;',
              '    default: sim_common_op(&sim_x, yyscanner); break;',
              '  } } sim_leave(); }']
        return '\n'.join(o)

    def c99_eof_action(self, k):
        o = ['{ sim_xop sim_x; int sim_go = 1; int sim_a;',
             '  sim_enter(%d, 1, "", 0, yystart(), yy_current_buffer(yyscanner) ? yylineno : -1, 0, (void *) yy_current_buffer(yyscanner));' % k,
             '  while (sim_go) { switch (sim_next_op(&sim_x)) {',
             '    case SOP_END: sim_go = 0; break;',
             '    case SOP_BEGIN: sim_a = (int) sim_x.a; yybegin(sim_a); break;']
        if self.stack:
            o += ['    case SOP_PUSH_STATE: yy_push_state((int) sim_x.a, yyscanner); break;',
                  '    case SOP_POP_STATE: yy_pop_state(yyscanner); break;',
                  '    case SOP_TOP_STATE: sim_res_int("top", yy_top_state(yyscanner)); break;']
        o += ['    case SOP_GET_STATE: sim_res_int("state", yystart()); break;',
              '    case SOP_RETURN: sim_leave(); return (int) sim_x.a;',
              '    case SOP_TERMINATE: sim_leave(); yyterminate();',
              '    case SOP_NEWFILE: yyset_in(sim_x.f, yyscanner); yyrestart(sim_x.f, yyscanner); break;',
              '    default: sim_common_op(&sim_x, yyscanner); break;',
              '  } } sim_leave();',
              '  if (!sim_cur->provided_input) { yyterminate(); } }']
        return '\n'.join(o)

    def rule_line(self, i, with_conds=True):
        r = self.rules[i]
        k = r.ident if r.ident else i + 1
        pre = ''
        if r.star:
            pre = '<*>'
        elif r.conds and with_conds:
            pre = '<' + ','.join(self.cond_name(c) for c in r.conds) + '>'
        if r.is_eof:
            if self.flavor == 'c99':
                return '%s<<EOF>>  %s' % (pre, self.c99_eof_action(k))
            return '%s<<EOF>>  { SIM_EOF_ACTION(%d); }' % (pre, k)
        # the printed form of a pattern (which of several equivalent spellings of a class is used) is chosen
        # per AST node; it is rendered once and kept as text, so that it survives pickling (worker -> parent,
        # replay files), where node identities change
        st = (lambda n: r.styles.get(id(n), 0))
        if r.rpat is None:
            r.rpat = rx.to_flex(r.pat, st)
        p = r.rpat
        if r.bol:
            p = '^' + p
        if r.trail is not None:
            if r.rtrail is None:
                r.rtrail = rx.to_flex(r.trail, st)
            p += '/' + r.rtrail
        elif r.eol:
            p += '$'
        if r.bar:
            return '%s%s  |' % (pre, p)
        if self.flavor == 'c99':
            return '%s%s  %s' % (pre, p, self.c99_action(k))
        return '%s%s  { SIM_ACTION(%d); }' % (pre, p, k)

    def to_l(self):
        fl = {'nr': 0, 'r': 1, 'c99': 2, 'cxx': 3}[self.flavor]
        o = []
        o.append('%{')
        o.append('#define SIM_NAME "%s"' % self.name)
        o.append('#define SIM_FLAVOR %d' % fl)
        o.append('#define SIM_NCONDS %d' % self.nconds())
        o.append('#define SIM_HAS_LINENO %d' % int(self.lineno))
        o.append('#define SIM_HAS_STACK %d' % int(self.stack))
        o.append('#define SIM_HAS_REJECT %d' % int(self.reject))
        o.append('#define SIM_HAS_YYMORE %d' % int(self.yymore))
        o.append('#define SIM_BOL_NEEDED %d' % int(self.bol_needed()))
        o.append('#define SIM_TEXT_IS_ARRAY %d' % int(self.array))
        o.append('#define SIM_DEFAULT_RULE %d' % self.default_rule_id())
        o.append('#define SIM_HAS_TABLES %d' % int(self.tables_file))
        o.append('#define SIM_USER_INPUT %d' % int(self.user_input))
        o.append('#define SIM_READ_SYSCALL %d' % int(bool(self.use_read) and not self.user_input))
        if self.flavor == 'cxx':
            o.append('#define SimLexer SimLexer_%s' % self.name)   # one class per scanner of a program
        o.append('#include "sim_pre.h"')
        o.append('%}')
        opts = ['noyyalloc', 'noyyrealloc', 'noyyfree', 'nounistd']
        opts.append('yylineno' if self.lineno else 'noyylineno')
        if self.reject:
            opts.append('reject')
        elif not self.has_vtc():
            # (%option noreject with variable trailing context yields a
            # scanner that does not compile: label find_rule is missing)
            opts.append('noreject')
        opts.append('yymore' if self.yymore else 'noyymore')
        if self.stack:
            opts.append('stack')
        if self.flavor in ('r',):
            opts.append('reentrant')
        if self.flavor == 'cxx':
            opts.extend(['c++', 'yyclass="SimLexer_%s"' % self.name, 'noyywrap'])
        if self.flavor == 'c99':
            opts.append('emit="c99"')
            opts.append('noyypanic')
            opts.append('extra-type="void *"')
            if self.buf_size:
                opts.append('bufsize=%d' % self.buf_size)
            if self.user_input:
                opts.append('noyyread')
        if self.array:
            opts.append('array')
            if self.yylmax:
                opts.append('yylmax=%d' % self.yylmax)
        if self.interactive:
            opts.append(self.interactive)
        if self.use_read:
            opts.append('read')
        if self.prefix:
            opts.append('prefix="%s"' % self.prefix)
        if self.tables_file:
            opts.append('tables-file="%s.tables"' % self.name)
        if self.tables_verify:
            opts.append('tables-verify')
        opts.extend(self.extra_opts)
        for i in range(0, len(opts), 6):
            o.append('%option ' + ' '.join(opts[i:i + 6]))
        for name, ex in self.conds[1:]:
            o.append(('%x ' if ex else '%s ') + name)
        o.append('%%')
        open_scope = None       # condition list of the scope(s) currently open (scoped rendering only)
        for i in range(len(self.rules)):
            r = self.rules[i]
            if not self.scoped:
                o.append(self.rule_line(i))
                continue
            # <A>{ <B>{ rule ... } }: nested scopes add their conditions to the rules inside; a run of rules
            # naming the same conditions shares one scope, and <*> rules met inside the run stay inside it
            # (a nested <*> names every condition for that one rule only)
            key = tuple(r.conds) if (r.conds and not r.star and not r.is_eof) else None
            if open_scope is not None and not (key == open_scope or (r.star and not r.is_eof)):
                o.extend('}' for _ in open_scope)
                open_scope = None
            if open_scope is None and key is not None:
                o.extend('<%s>{' % self.cond_name(c) for c in key)
                open_scope = key
            o.append(self.rule_line(i, with_conds=(open_scope is None)) if not r.star else self.rule_line(i))
        if open_scope is not None:
            o.extend('}' for _ in open_scope)
        o.append('%%')
        o.append('#include "sim_scn.h"')
        return '\n'.join(o) + '\n'


# ---------------------------------------------------------------- generation
def gen_pattern(rng, alpha, depth, feats):
    """random non-empty-matching pattern over alphabet `alpha`"""
    def atom():
        r = rng.random()
        if r < 0.45 or not alpha:
            n = 1 if rng.random() < 0.6 else rng.randint(2, 3)
            return rx.lit(bytes(rng.choice(alpha) for _ in range(n)))
        if r < 0.75 and 'cls' in feats:
            k = rng.randint(1, max(1, min(4, len(alpha))))
            s = set(rng.sample(alpha, k))
            if 'wide' in feats and rng.random() < 0.3:
                lo = rng.randint(0, 250)
                s.update(range(lo, min(256, lo + rng.randint(1, 40))))
            return rx.cls(s)
        if r < 0.85 and 'neg' in feats:
            k = rng.randint(1, max(1, min(3, len(alpha))))
            s = rx.ALL - set(rng.sample(alpha, k))
            if rng.random() < 0.5:
                s = s - {NL}
            return rx.cls(s)
        if r < 0.93 and 'dot' in feats:
            return rx.dot()
        if 'sdot' in feats:
            return rx.cls(rx.ALL)
        return rx.lit(bytes([rng.choice(alpha)]))

    def node(d):
        r = rng.random()
        if d <= 0 or r < 0.35:
            return atom()
        if r < 0.6:
            return rx.cat(*[node(d - 1) for _ in range(rng.randint(2, 3))])
        if r < 0.75 and 'alt' in feats:
            return rx.alt(*[node(d - 1) for _ in range(rng.randint(2, 3))])
        if 'rep' in feats:
            x = node(d - 1)
            q = rng.random()
            if q < 0.3:
                return rx.star(x)
            if q < 0.6:
                return rx.plus(x)
            if q < 0.8:
                return rx.opt(x)
            lo = rng.randint(0, 2)
            hi = rng.choice([None, lo, lo + rng.randint(1, 2)])
            if hi == 0:
                hi = 1
            return rx.rep(x, lo, hi)
        return atom()

    for _ in range(20):
        p = node(depth)
        if not rx.nullable(p):
            return p
    return rx.lit(bytes([rng.choice(alpha)]))


ALL_FEATS = ['cls', 'neg', 'dot', 'sdot', 'alt', 'rep', 'wide', 'bol', 'eol', 'trail',
             'vtrail', 'conds', 'xconds', 'star', 'eofrules', 'nul', 'high', 'nl', 'catchall', 'bar']


def gen_scenario(rng, want=None, forbid=()):
    """swarm-style scenario.  `want`: dict of forced attributes; `forbid`:
    feature names never used."""
    want = dict(want or {})
    sc = Scenario()
    sevenbit = bool(want.pop('sevenbit', False))
    feats = {f for f in ALL_FEATS if rng.random() < 0.5}
    feats |= set(want.pop('feats', ()))
    feats -= set(forbid)
    if sevenbit:
        feats -= {'neg', 'wide', 'sdot', 'high', 'catchall'}
    # alphabet
    pool = list(b'abcdefxyz01 ')
    alpha = rng.sample(pool, rng.randint(2, 5))
    if 'nl' in feats:
        alpha.append(NL)
    if 'nul' in feats:
        alpha.append(0)
    if 'high' in feats:
        alpha.append(rng.choice([0x80, 0xa5, 0xff, 0xfe, 0xc3]))
    sc.alphabet = alpha
    sc.feats = feats
    # conditions
    if 'conds' in feats or 'xconds' in feats:
        n = rng.randint(1, 3)
        for i in range(n):
            ex = ('xconds' in feats) and (('conds' not in feats) or rng.random() < 0.5)
            sc.conds.append(('C%d' % (i + 1), ex))
    nc = len(sc.conds)
    # rules
    big = bool(want.pop('big', False))
    nrules = rng.randint(2, 10)
    nkw = rng.randint(40, 90) if big else 0   # keyword rules: a DFA of several hundred states
    for ri in range(nrules + nkw):
        r = Rule()
        if ri >= nrules:
            r.pat = rx.lit(bytes(rng.choice(alpha) for _ in range(rng.randint(3, 8))))
        else:
            r.pat = gen_pattern(rng, alpha, rng.randint(0, 3), feats)
        if nc > 1:
            q = rng.random()
            if q < 0.15 and 'star' in feats:
                r.star = True
                r.conds = []
            elif q < 0.6:
                k = rng.randint(1, min(2, nc))
                r.conds = sorted(rng.sample(range(nc), k))
            else:
                r.conds = []
        else:
            r.conds = []
        if 'bol' in feats and rng.random() < 0.3:
            r.bol = True
        q = rng.random()
        if 'eol' in feats and q < 0.15:
            r.eol = True
        elif 'trail' in feats and q < 0.4:
            t = gen_pattern(rng, alpha, rng.randint(0, 1), feats)
            if 'vtrail' in feats or rx.syn_fixed_len(r.pat) is not None or rx.syn_fixed_len(t) is not None:
                r.trail = t
        sc.rules.append(r)
    # '|' actions: a rule shares the action of the next one (never the last)
    if 'bar' in feats:
        for i in range(len(sc.rules) - 1):
            if rng.random() < 0.15 and not sc.rules[i + 1].is_eof:
                sc.rules[i].bar = True
    if 'catchall' in feats:
        r = Rule(pat=rx.cls(rx.ALL), conds=[], star=(nc > 1))
        sc.rules.append(r)
    if 'eofrules' in feats:
        # disjoint condition lists (flex warns about and mis-generates
        # duplicate <<EOF>> rules), optionally one unqualified rule
        free = list(range(nc))
        rng.shuffle(free)
        for _ in range(rng.randint(0, 2)):
            if len(free) <= 1:
                break
            k = rng.randint(1, len(free) - 1)
            cs, free = free[:k], free[k:]
            sc.rules.insert(rng.choice([0, len(sc.rules)]), Rule(is_eof=True, conds=sorted(cs)))
        if free and rng.random() < 0.7:
            # an unqualified <<EOF>> applies to the conditions lacking their own
            sc.rules.append(Rule(is_eof=True, conds=[]))
    # class print styles
    for r in sc.rules:
        if r.is_eof:
            continue
        def walk(n):
            if n[0] == 'cls':
                s = n[1]
                if s == rx.ALL - {NL} and (sevenbit or rng.random() < 0.7):
                    r.styles[id(n)] = 3
                elif sevenbit:
                    r.styles[id(n)] = rng.choice([0, 2])
                elif s == rx.ALL and rng.random() < 0.7:
                    r.styles[id(n)] = 4
                else:
                    r.styles[id(n)] = rng.choice([0, 0, 1, 2]) if len(s) < 40 else rng.choice([0, 1])
            elif n[0] in ('cat', 'alt'):
                for x in n[1]:
                    walk(x)
            elif n[0] == 'rep':
                walk(n[1])
        walk(r.pat)
        if r.trail is not None:
            walk(r.trail)
    # configuration
    sc.flavor = rng.choice(want.pop('flavors', ['nr', 'r']))
    if os.environ.get('VERIF_FORCE_FLAVOR') and 'flavor' not in want:
        sc.flavor = os.environ['VERIF_FORCE_FLAVOR']      # experiment knob
    sc.tables = rng.choice(TABLE_OPTS)
    sc.bits = 8
    sc.interactive = rng.choice([None, None, 'interactive', 'batch', 'always-interactive', 'never-interactive'])
    sc.array = rng.random() < 0.3
    if sc.array:
        sc.yylmax = rng.choice([None, None, 8, 16, 40, 200])
    sc.lineno = rng.random() < 0.7
    sc.reject = rng.random() < 0.3
    sc.yymore = rng.random() < 0.7
    sc.stack = True
    sc.buf_size = rng.choice([None, None, 1, 2, 3, 4, 5, 7, 8, 9, 15, 16, 17, 63, 64, 200])
    for k, v in want.items():
        setattr(sc, k, v)
    if os.environ.get('VERIF_FORCE_TABLES') is not None:
        # experiment knob (directed exploration of one table representation)
        sc.tables = os.environ['VERIF_FORCE_TABLES']
        want = dict(want)
        want['tables'] = sc.tables
    # combinations flex refuses (documented): REJECT / variable trailing
    # context with -Cf/-CF.  Keep the configuration legal.
    if sc.fulltbl() and (sc.reject or sc.has_vtc()):
        if 'tables' in want:
            sc.reject = False
            for r in sc.rules:
                if r.is_vtc():
                    r.trail = None
        else:
            sc.tables = rng.choice(['', '-Cem', '-Ce', '-Cm', '-C', '-Ca'])
    if sc.flavor == 'c99':
        # limits of the c99 back end met while building the harness (none of them a claimed property):
        # '|' actions make flex die in m4; a newline-matching trailing-context rule without %option
        # yylineno does not link; %array copies tokens with strncpy
        for r in sc.rules:
            r.bar = False
        sc.lineno = True
        # catch-all as the very last rule (after the <<EOF>> rules, which take no rule number at run time)
        sc.rules.append(Rule(pat=rx.cls(rx.ALL), conds=[], star=(nc > 1)))
        sc.c99_catchall = True
    if sc.flavor == 'cxx':
        # %array and serialized tables do not exist for C++ scanners
        sc.array = False
        sc.yylmax = None
        if 'user_input' not in want:
            # half of the C++ scanners keep yyFlexLexer::LexerInput and read a simulated std::streambuf
            sc.user_input = rng.random() < 0.5
    if sc.fulltbl() and sc.interactive in ('interactive', 'always-interactive'):
        sc.interactive = rng.choice([None, 'batch', 'never-interactive'])
    return sc


def relabel_scenario(sc, perm):
    """the twin scenario pi(S): every literal and class mapped through the byte
    permutation `perm` (a dict; bytes not mentioned are fixed)"""
    import copy
    t = copy.copy(sc)
    t._matchers = {}
    t.rules = []
    for r in sc.rules:
        q = copy.copy(r)
        q.styles = {}
        q.rpat = None
        q.rtrail = None
        if r.pat is not None:
            q.pat = rx.relabel(r.pat, perm)
        if r.trail is not None:
            q.trail = rx.relabel(r.trail, perm)
        t.rules.append(q)
    t.alphabet = [perm.get(b, b) for b in sc.alphabet]
    return t

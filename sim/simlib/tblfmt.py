"""Independent parser of flex's serialized-tables file, written from the
manual's section "Tables File Format" (not from tables.c)."""
import struct

MAGIC = 0xF13C57B1
IDS = {1: 'ACCEPT', 2: 'BASE', 3: 'CHK', 4: 'DEF', 5: 'EC', 6: 'META', 7: 'NUL_TRANS', 8: 'NXT', 9: 'RULE_CAN_MATCH_EOL',
       10: 'START_STATE_LIST', 11: 'TRANSITION', 12: 'ACCLIST'}
DATA8, DATA16, DATA32, PTRANS, STRUCT = 1, 2, 4, 8, 16


def parse(data):
    """returns (sets, problems).  Each set: dict(off, hsize, ssize, flags, version, name, tables=[...])"""
    problems = []
    sets = []
    off = 0
    n = len(data)
    while off < n:
        if n - off < 14:
            problems.append('trailing %d bytes at offset %d are too short for a header' % (n - off, off))
            break
        magic, hsize, ssize, flags = struct.unpack('>IIIH', data[off:off + 14])
        if magic != MAGIC:
            problems.append('offset %d: magic number is 0x%08X, not 0xF13C57B1' % (off, magic))
            break
        if hsize % 8:
            problems.append('offset %d: th_hsize %d is not padded to a 64-bit boundary' % (off, hsize))
        if ssize % 8:
            problems.append('offset %d: th_ssize %d is not padded to a 64-bit boundary' % (off, ssize))
        if off + ssize > n or hsize > ssize or hsize < 16:
            problems.append('offset %d: header sizes hsize=%d ssize=%d do not fit the %d-byte file' % (off, hsize, ssize, n))
            break
        strs = data[off + 14:off + hsize]
        z1 = strs.find(b'\0')
        z2 = strs.find(b'\0', z1 + 1) if z1 >= 0 else -1
        if z1 < 0 or z2 < 0:
            problems.append('offset %d: th_version / th_name are not both NUL-terminated inside the header' % off)
            break
        version = strs[:z1].decode('latin-1')
        name = strs[z1 + 1:z2].decode('latin-1')
        if any(strs[z2 + 1:]):
            problems.append('offset %d: header padding is not all NUL' % off)
        st = {'off': off, 'hsize': hsize, 'ssize': ssize, 'flags': flags, 'version': version, 'name': name, 'tables': []}
        p = off + hsize
        end = off + ssize
        while p < end:
            if end - p < 12:
                problems.append('offset %d: %d stray bytes before the end of the set' % (p, end - p))
                break
            tid, tflags, hilen, lolen = struct.unpack('>HHII', data[p:p + 12])
            if tid not in IDS:
                problems.append('offset %d: unknown table id 0x%02X' % (p, tid))
            width = [w for w, f in ((1, DATA8), (2, DATA16), (4, DATA32)) if tflags & f]
            if len(width) != 1:
                problems.append('offset %d: td_flags 0x%02X does not select exactly one element width' % (p, tflags))
                break
            if tflags & ~(DATA8 | DATA16 | DATA32 | PTRANS | STRUCT):
                problems.append('offset %d: td_flags 0x%02X has undocumented bits' % (p, tflags))
            count = lolen * (hilen if hilen else 1) * (2 if tflags & STRUCT else 1)
            dlen = count * width[0]
            dstart = p + 12
            total = 12 + dlen
            pad = (-(total)) % 8
            if dstart + dlen + pad > end:
                problems.append('offset %d: table %s with %d elements runs past the end of its set' % (p, IDS.get(tid, tid), count))
                break
            if any(data[dstart + dlen:dstart + dlen + pad]):
                problems.append('offset %d: table padding is not all NUL' % p)
            st['tables'].append({'off': p, 'id': tid, 'flags': tflags, 'hilen': hilen, 'lolen': lolen, 'width': width[0],
                                 'data_off': dstart, 'data_len': dlen, 'pad': pad})
            p = dstart + dlen + pad
        if p != end and not problems:
            problems.append('offset %d: tables end at %d but th_ssize says %d' % (off, p, end))
        sets.append(st)
        off = end
    return sets, problems

"""Plan generators shared by the property checks."""
from __future__ import annotations
from .plan import Plan, Source, Inst, Op, gen_input, gen_sched

NL = 10


def gen_sources(rng, sc, n, maxlen=120, kind='user', sched_style=None, allow_empty=True):
    out = []
    for _ in range(n):
        r = rng.random()
        if allow_empty and r < 0.08:
            ln = 0
        elif r < 0.5:
            ln = rng.randint(1, 12)
        else:
            ln = rng.randint(1, maxlen)
        data = gen_input(rng, sc.alphabet, ln, stray=rng.choice([0, 0.02, 0.1]))
        out.append(Source(data, gen_sched(rng, sched_style), kind=kind))
    return out


def text_ops(rng, sc, density=0.35, kinds=None, max_ord=80):
    """in-action ops keyed by action ordinal"""
    kinds = kinds or ['LESS', 'UNPUT', 'INPUT', 'MORE', 'REJECT', 'BEGIN', 'PUSH_STATE', 'POP_STATE', 'TOP_STATE', 'RETURN', 'GET_STATE']
    kinds = [k for k in kinds if not (k == 'REJECT' and not sc.reject) and not (k == 'MORE' and not sc.yymore)
             and not (k in ('PUSH_STATE', 'POP_STATE', 'TOP_STATE') and not sc.stack)]
    acts = []
    if not kinds:
        return acts
    if 'MORE' in kinds and rng.random() < 0.15:
        # a run of consecutive yymore() calls: yytext grows over many tokens
        start = rng.randint(0, 20)
        for o in range(start, start + rng.choice([3, 5, 9, 20, 60])):
            acts.append((o, Op('MORE')))
        acts.sort(key=lambda x: x[0])
        return acts
    for o in range(max_ord):
        if rng.random() >= density:
            continue
        for _ in range(rng.choice([1, 1, 1, 2, 3])):
            k = rng.choice(kinds)
            if k == 'LESS':
                acts.append((o, Op('LESS', a=rng.randint(0, 6))))
            elif k == 'UNPUT':
                for _ in range(rng.choice([1, 1, 2, 4])):
                    c = rng.choice(sc.alphabet) if rng.random() < 0.85 else rng.randrange(256)
                    acts.append((o, Op('UNPUT', a=c)))
            elif k == 'INPUT':
                for _ in range(rng.choice([1, 1, 2, 5])):
                    acts.append((o, Op('INPUT')))
            elif k in ('BEGIN', 'PUSH_STATE'):
                acts.append((o, Op(k, a=rng.randint(0, 7))))
            elif k == 'RETURN':
                acts.append((o, Op('RETURN', a=rng.randint(0, 5))))
            else:
                acts.append((o, Op(k)))
    return acts


def gen_stream_plan(rng, sc, nsrc=None, maxlen=120, kind='user', density=None, kinds=None,
                    chain=True, sched_style=None, lex_calls=None):
    """one instance scanning a chain of sources with edit ops inside actions"""
    p = Plan()
    p.junk_seed = rng.randint(1, 1 << 30)
    p.junk_pat = rng.choice([0, 0, 1, 2, 3, 4])
    n = nsrc if nsrc is not None else rng.choice([1, 1, 2, 3])
    p.sources = gen_sources(rng, sc, n, maxlen, kind, sched_style)
    it = p.insts[0]
    it.top.append(Op('INIT', a=rng.randint(0, 1)))
    if sc.nconds() > 1 and rng.random() < 0.5:
        it.top.append(Op('BEGIN', a=rng.randint(0, sc.nconds() - 1)))
    it.top.append(Op('LEX', a=lex_calls or 5000))
    it.top.append(Op('DESTROY'))
    d = density if density is not None else rng.choice([0.0, 0.1, 0.3, 0.6])
    it.acts = text_ops(rng, sc, d, kinds)
    if chain:
        for _ in range(n - 1):
            it.wraps.append(Op('SET_YYIN'))
    if rng.random() < 0.2:
        # one source says "end" although data remain, and yywrap answers 0 without doing anything:
        # the same stream goes on (whether yylex or yyinput ran into the end indication)
        j = rng.randrange(len(p.sources))
        sch = list(p.sources[j].sched)
        sch.insert(rng.randint(0, len(sch)), 'E')
        p.sources[j].sched = sch
        it.wraps.insert(min(j, len(it.wraps)), Op('NOP'))
    return p


def top_mix(rng, sc, it, segments=None, kinds=None):
    """several LEX ops interleaved with top-level API calls (RETURN ops inside
    actions make yylex come back early)"""
    kinds = kinds or ['BEGIN', 'PUSH_STATE', 'POP_STATE', 'TOP_STATE', 'GET_LINENO', 'SET_LINENO', 'SETBOL', 'GET_STATE']
    kinds = [k for k in kinds if not (k in ('PUSH_STATE', 'POP_STATE', 'TOP_STATE') and not sc.stack)]
    n = segments if segments is not None else rng.randint(1, 5)
    for _ in range(n):
        it.top.append(Op('LEX', a=rng.choice([1, 1, 2, 3, 7, 50])))
        for _ in range(rng.randint(0, 3)):
            k = rng.choice(kinds)
            if k in ('BEGIN', 'PUSH_STATE'):
                it.top.append(Op(k, a=rng.randint(0, 7)))
            elif k == 'SET_LINENO':
                it.top.append(Op(k, a=rng.choice([0, 1, 7, 100, 99999])))
            elif k == 'SETBOL':
                it.top.append(Op(k, a=rng.randint(0, 1)))
            else:
                it.top.append(Op(k))
    it.top.append(Op('LEX', a=5000))


def gen_lineno_plan(rng, sc):
    p = gen_stream_plan(rng, sc, density=rng.choice([0.1, 0.3, 0.6]),
                        kinds=['LESS', 'UNPUT', 'INPUT', 'MORE', 'REJECT', 'RETURN', 'LESS', 'UNPUT', 'INPUT', 'BEGIN'])
    it = p.insts[0]
    # newline-heavy push-back
    it.acts = [(o, Op('UNPUT', a=NL) if (op.name == 'UNPUT' and rng.random() < 0.5) else op) for o, op in it.acts]
    it.top = [op for op in it.top if op.name not in ('LEX', 'DESTROY')]
    top_mix(rng, sc, it, kinds=['GET_LINENO', 'SET_LINENO', 'BEGIN', 'GET_LINENO'])
    if sc.flavor != 'nr' and rng.random() < 0.5:
        # per-buffer counters: nested buffers from inside actions
        for o in sorted(rng.sample(range(40), rng.randint(1, 4))):
            it.acts.append((o, Op(rng.choice(['PUSHNEW', 'POP_BUF', 'SWITCHNEW']), a=rng.choice([1, 3, 16, 200]))))
        it.acts.sort(key=lambda x: x[0])
        for _ in range(3):
            p.sources.append(Source(gen_input(rng, sc.alphabet, rng.randint(1, 30)), gen_sched(rng)))
    it.top.append(Op('DESTROY'))
    return p


def gen_state_plan(rng, sc):
    """start-condition histories: begin/push/pop/top from actions and between calls"""
    p = gen_stream_plan(rng, sc, density=0.0)
    it = p.insts[0]
    acts = []
    deep = rng.random() < 0.25
    for o in range(90):
        r = rng.random()
        if r < 0.45:
            continue
        for _ in range(rng.choice([1, 1, 2, 3])):
            k = rng.choice(['BEGIN', 'PUSH_STATE', 'PUSH_STATE', 'POP_STATE', 'TOP_STATE', 'GET_STATE', 'RETURN'])
            if k in ('BEGIN', 'PUSH_STATE'):
                acts.append((o, Op(k, a=rng.randint(0, 7))))
            elif k == 'RETURN':
                acts.append((o, Op(k, a=rng.randint(0, 3))))
            else:
                acts.append((o, Op(k)))
        if deep and rng.random() < 0.3:
            for _ in range(rng.choice([26, 30, 51, 60])):
                acts.append((o, Op('PUSH_STATE', a=rng.randint(0, 7))))
    it.acts = acts
    it.top = [op for op in it.top if op.name not in ('LEX', 'DESTROY')]
    # the condition can be queried and changed before the first yylex call, too
    for _ in range(rng.choice([0, 0, 1, 2, 4])):
        k = rng.choice(['GET_STATE', 'PUSH_STATE', 'TOP_STATE', 'PUSH_STATE', 'POP_STATE', 'BEGIN'])
        it.top.append(Op(k, a=rng.randint(0, 7)) if k in ('PUSH_STATE', 'BEGIN') else Op(k))
    top_mix(rng, sc, it, kinds=['BEGIN', 'PUSH_STATE', 'POP_STATE', 'TOP_STATE', 'GET_STATE', 'RESTART', 'SWITCHNEW', 'FLUSH'])
    if rng.random() < 0.5:
        it.top.append(Op('SET_YYIN'))
        it.top.append(Op('LEX', a=5000))
    it.top.append(Op('DESTROY'))
    if rng.random() < 0.4:
        # a destroyed scanner starts again in INITIAL with an empty stack,
        # whatever was on the stack when it was destroyed
        it.top.append(Op('INIT', a=rng.randint(0, 1)))
        for _ in range(rng.choice([1, 2, 3, 5])):
            k = rng.choice(['GET_STATE', 'TOP_STATE', 'POP_STATE', 'PUSH_STATE', 'POP_STATE', 'BEGIN'])
            it.top.append(Op(k, a=rng.randint(0, 7)) if k in ('PUSH_STATE', 'BEGIN') else Op(k))
        if rng.random() < 0.5:
            it.top.append(Op('SCAN_BYTES', d=gen_input(rng, sc.alphabet, rng.randint(1, 12))))
            it.top.append(Op('LEX', a=5000))
        it.top.append(Op('DESTROY'))
    # EOF actions may change the condition too
    return p


def gen_eof_plan(rng, sc):
    """chains of sources, EOF indications at arbitrary instants, yywrap
    policies, <<EOF>> action scripts, calls after termination"""
    p = Plan()
    p.junk_seed = rng.randint(1, 1 << 30)
    p.junk_pat = rng.choice([0, 1, 2, 3, 4])
    n = rng.randint(1, 5)
    for _ in range(n):
        r = rng.random()
        ln = 0 if r < 0.15 else (rng.randint(1, 6) if r < 0.6 else rng.randint(1, 60))
        data = gen_input(rng, sc.alphabet, ln, stray=0.03)
        sched = gen_sched(rng)
        if rng.random() < 0.3:
            # the source says "end" although data remain (a terminal after ^D)
            sched = list(sched)
            for _ in range(rng.randint(1, 2)):
                sched.insert(rng.randint(0, len(sched)), 'E')
        p.sources.append(Source(data, sched))
    it = p.insts[0]
    it.top.append(Op('INIT', a=rng.randint(0, 1)))
    if sc.nconds() > 1 and rng.random() < 0.6:
        it.top.append(Op('BEGIN', a=rng.randint(0, sc.nconds() - 1)))
    if rng.random() < 0.25:
        # the scan starts on an in-memory copy; yywrap may answer its end
        # with a stream (allow bit 4: see resolve() in sim_driver.c)
        k = rng.choice(['SCAN_BYTES', 'SCAN_STRING'])
        alpha = sc.alphabet if k != 'SCAN_STRING' else ([c for c in sc.alphabet if c] or [97])
        it.top.append(Op(k, d=gen_input(rng, alpha, rng.choice([2, 3, 5, 12, 30]), stray=0.0)))
        p.allow |= 16
    it.top.append(Op('LEX', a=rng.choice([5000, 5000, 3, 10])))
    # after termination
    for _ in range(rng.randint(0, 4)):
        k = rng.choice(['LEX', 'SET_YYIN', 'RESTART', 'LEX', 'BEGIN'])
        if k == 'LEX':
            it.top.append(Op('LEX', a=rng.choice([1, 5000])))
        elif k == 'RESTART':
            it.top.append(Op('RESTART', a=rng.choice([0, 0, 1])))
        elif k == 'BEGIN':
            it.top.append(Op('BEGIN', a=rng.randint(0, 7)))
        else:
            it.top.append(Op(k))
    it.top.append(Op('LEX', a=5000))
    it.top.append(Op('DESTROY'))
    # yywrap policy
    for _ in range(rng.randint(0, n + 2)):
        # (POP_BUF: back to the buffer below, skipped unless there is one; NOP: yywrap answers 0
        # without doing anything - the same stream goes on after an end indication, a terminal after ^D)
        it.wraps.append(Op(rng.choice(['SET_YYIN', 'SET_YYIN', 'SWITCHNEW', 'STOP', 'PUSHNEW', 'PUSHNEW', 'POP_BUF', 'POP_BUF', 'NOP']), a=rng.choice([1, 2, 5, 16, 16384])))
    # action scripts: a few edit ops, and scripts for the EOF actions (any
    # ordinal may turn out to be an EOF action: ops not allowed there are skipped)
    acts = text_ops(rng, sc, rng.choice([0.0, 0.1, 0.3]), ['INPUT', 'UNPUT', 'MORE', 'BEGIN', 'RETURN', 'LESS'])
    for o in range(0, 120):
        if rng.random() < 0.25:
            k = rng.choice(['NEWFILE', 'TERMINATE', 'RETURN', 'BEGIN', 'SWITCHNEW', 'POP_BUF', 'NEWFILE', 'PUSHNEW', 'PUSHNEW'])
            acts.append((o, Op(k, a=rng.randint(0, 7))))
    acts.sort(key=lambda x: x[0])
    it.acts = acts
    return p


def gen_buffer_plan(rng, sc):
    """histories over create/scan_*/switch/push/pop/flush/delete/yylex, from
    top level, from inside actions, from <<EOF>> actions and from yywrap"""
    p = Plan()
    p.junk_seed = rng.randint(1, 1 << 30)
    p.junk_pat = rng.choice([0, 1, 2, 3, 4])
    deep = rng.random() < 0.2
    nsrc = rng.randint(12, 30) if deep else rng.randint(3, 9)
    for _ in range(nsrc):
        ln = rng.choice([0, 1, 2, 3, 5, 8, 13, 30])
        sched = gen_sched(rng)
        if rng.random() < 0.15:
            # the stream says "end" although data remain: a buffer whose last token ran into that end
            # and which is flushed or returned to later reads the stream again
            sched = list(sched)
            sched.insert(rng.randint(0, len(sched)), 'E')
        p.sources.append(Source(gen_input(rng, sc.alphabet, ln, stray=0.02), sched))
    it = p.insts[0]
    it.top.append(Op('INIT', a=rng.randint(0, 1)))

    def bufop(ctx):
        k = rng.choice(['CREATE_BUF', 'SWITCH', 'PUSH_BUF', 'PUSHNEW', 'SWITCHNEW', 'POP_BUF', 'FLUSH', 'DELETE',
                        'SCAN_BYTES', 'SCAN_STRING', 'SCAN_BUFFER', 'PUSHNEW', 'SWITCH', 'POP_BUF'])
        if k in ('SCAN_BYTES', 'SCAN_STRING', 'SCAN_BUFFER'):
            alpha = sc.alphabet if k != 'SCAN_STRING' else ([c for c in sc.alphabet if c] or [97])
            d = gen_input(rng, alpha, rng.choice([0, 1, 2, 5, 12]), stray=0.0 if k == 'SCAN_STRING' else 0.02)
            a = 0
            if k == 'SCAN_BUFFER' and rng.random() < 0.25:
                a = rng.choice([1, 2, 3])
            return Op(k, a=a, d=d)
        if k in ('CREATE_BUF', 'PUSHNEW', 'SWITCHNEW'):
            return Op(k, a=rng.choice([1, 2, 3, 4, 8, 16, 17, 64, 16384]))
        return Op(k, a=rng.randint(0, 9))

    for _ in range(rng.randint(0, 3)):
        it.top.append(bufop('top'))
    for _ in range(rng.randint(2, 8)):
        it.top.append(Op('LEX', a=rng.choice([1, 2, 3, 5, 20, 5000])))
        for _ in range(rng.randint(0, 2)):
            # (a new input stream between two yylex calls: C scanners may only do that before the first
            # call or after the end of input, the C++ lexer any time through switch_streams())
            it.top.append(bufop('top') if rng.random() < 0.85 else Op('SET_YYIN'))
        if rng.random() < 0.15:
            it.top.append(Op('SETBOL', a=rng.randint(0, 1)))
        if sc.flavor != 'nr' and rng.random() < 0.15:
            it.top.append(Op(rng.choice(['GET_LINENO', 'SET_LINENO']), a=rng.choice([1, 5, 77])))
    it.top.append(Op('LEX', a=5000))
    it.top.append(Op('DESTROY'))
    acts = []
    for o in range(100):
        r = rng.random()
        if r < (0.5 if deep else 0.25):
            acts.append((o, Op('PUSHNEW', a=rng.choice([1, 3, 16, 64])) if deep and rng.random() < 0.7 else bufop('act')))
        elif r < 0.35:
            acts.append((o, Op('RETURN', a=rng.randint(0, 3))))
        elif r < 0.4:
            acts.append((o, Op(rng.choice(['LESS', 'INPUT', 'UNPUT', 'BEGIN']), a=rng.choice(sc.alphabet) if rng.random() < 0.5 else rng.randint(0, 5))))
    it.acts = acts
    for _ in range(rng.randint(0, 12)):
        it.wraps.append(Op(rng.choice(['POP_BUF', 'POP_BUF', 'POP_BUF', 'SWITCH', 'SET_YYIN', 'STOP', 'SWITCHNEW']), a=rng.randint(0, 9)))
    return p

"""Plan generators shared by the property checks."""
from __future__ import annotations
from .plan import Plan, Source, Inst, Op, gen_input, gen_sched

NL = 10


def gen_sources(rng, sc, n, maxlen=120, kind='user', sched_style=None, allow_empty=True):
    out = []
    for _ in range(n):
        r = rng.random()
        if allow_empty and r < 0.08:
            ln = 0
        elif r < 0.5:
            ln = rng.randint(1, 12)
        else:
            ln = rng.randint(1, maxlen)
        data = gen_input(rng, sc.alphabet, ln, stray=rng.choice([0, 0.02, 0.1]))
        out.append(Source(data, gen_sched(rng, sched_style), kind=kind))
    return out


def text_ops(rng, sc, density=0.35, kinds=None, max_ord=80):
    """in-action ops keyed by action ordinal"""
    kinds = kinds or ['LESS', 'UNPUT', 'INPUT', 'MORE', 'REJECT', 'BEGIN', 'PUSH_STATE', 'POP_STATE', 'TOP_STATE', 'RETURN', 'GET_STATE']
    kinds = [k for k in kinds if not (k == 'REJECT' and not sc.reject) and not (k == 'MORE' and not sc.yymore)
             and not (k in ('PUSH_STATE', 'POP_STATE', 'TOP_STATE') and not sc.stack)]
    acts = []
    if not kinds:
        return acts
    for o in range(max_ord):
        if rng.random() >= density:
            continue
        for _ in range(rng.choice([1, 1, 1, 2, 3])):
            k = rng.choice(kinds)
            if k == 'LESS':
                acts.append((o, Op('LESS', a=rng.randint(0, 6))))
            elif k == 'UNPUT':
                for _ in range(rng.choice([1, 1, 2, 4])):
                    c = rng.choice(sc.alphabet) if rng.random() < 0.85 else rng.randrange(256)
                    acts.append((o, Op('UNPUT', a=c)))
            elif k == 'INPUT':
                for _ in range(rng.choice([1, 1, 2, 5])):
                    acts.append((o, Op('INPUT')))
            elif k in ('BEGIN', 'PUSH_STATE'):
                acts.append((o, Op(k, a=rng.randint(0, 7))))
            elif k == 'RETURN':
                acts.append((o, Op('RETURN', a=rng.randint(0, 5))))
            else:
                acts.append((o, Op(k)))
    return acts


def gen_stream_plan(rng, sc, nsrc=None, maxlen=120, kind='user', density=None, kinds=None,
                    chain=True, sched_style=None, lex_calls=None):
    """one instance scanning a chain of sources with edit ops inside actions"""
    p = Plan()
    p.junk_seed = rng.randint(1, 1 << 30)
    p.junk_pat = rng.choice([0, 0, 1, 2, 3, 4])
    n = nsrc if nsrc is not None else rng.choice([1, 1, 2, 3])
    p.sources = gen_sources(rng, sc, n, maxlen, kind, sched_style)
    it = p.insts[0]
    it.top.append(Op('INIT', a=rng.randint(0, 1)))
    if sc.nconds() > 1 and rng.random() < 0.5:
        it.top.append(Op('BEGIN', a=rng.randint(0, sc.nconds() - 1)))
    it.top.append(Op('LEX', a=lex_calls or 5000))
    it.top.append(Op('DESTROY'))
    d = density if density is not None else rng.choice([0.0, 0.1, 0.3, 0.6])
    it.acts = text_ops(rng, sc, d, kinds)
    if chain:
        for _ in range(n - 1):
            it.wraps.append(Op('SET_YYIN'))
    return p

"""World P: checks that exercise the flex *process* (C16 robustness and exit
status honesty under output faults, C18 reproducible generation), as opposed
to the scanners it generates."""

"""Workload for the flex process checks: the repository's own .l files, seeded
mutations of them (malformed, huge, deeply nested), option sets and output
routings.  Everything is a pure function of the random.Random handed in."""
from __future__ import annotations
import glob
import hashlib
import os
import re

REPO = os.environ.get('VERIF_REPO', '/repo')


# ------------------------------------------------------------------ originals
_REDIR = re.compile(rb'[ \t]*\b(outfile|header-file|header|tables-file)[ \t]*=[ \t]*"[^"\n]*"')


def neutralise_redirects(b):
    """the command line decides where outputs go: drop outfile= / header-file= /
    tables-file= from the %option lines of a repository file (everything else
    is left byte for byte)"""
    out = []
    for line in b.split(b'\n'):
        if line.startswith(b'%option') and _REDIR.search(line):
            line = _REDIR.sub(b'', line)
            if line.strip() == b'%option':
                continue
        out.append(line)
    return b'\n'.join(out)


REDIRECTS = {
    'scanner': re.compile(rb'outfile|stdout|prefix|c\+\+|-P', re.I),
    'header': re.compile(rb'header', re.I),
    'tables': re.compile(rb'tables-file', re.I),
    'backup': re.compile(rb'$^'),
}


def load_corpus():
    """[(name, bytes)] sorted by name, duplicates (by content) removed"""
    paths = sorted(glob.glob(os.path.join(REPO, 'tests', '*.l')))
    paths += [os.path.join(REPO, 'src', 'scan.l')]
    ex = []
    for root, dirs, files in os.walk(os.path.join(REPO, 'examples')):
        dirs.sort()
        for fn in sorted(files):
            if fn.endswith('.l') or fn.endswith('.lex'):
                ex.append(os.path.join(root, fn))
    paths += sorted(ex)
    seen = set()
    out = []
    for p in paths:
        try:
            with open(p, 'rb') as f:
                b = neutralise_redirects(f.read())
        except OSError:
            continue
        h = hashlib.sha256(b).digest()
        if h in seen:
            continue
        seen.add(h)
        out.append((os.path.relpath(p, REPO), b))
    return out


def families(corpus):
    """group near-identical generated tests (tableopts_*) so that they do not
    dominate: {family: [index,...]} in sorted order"""
    fam = {}
    for i, (name, _) in enumerate(corpus):
        base = os.path.basename(name)
        key = re.split(r'[_.]', base)[0]
        if not name.startswith('tests/'):
            key = os.path.dirname(name) or name
        fam.setdefault(key, []).append(i)
    return dict(sorted(fam.items()))


def pick_original(rng, corpus, fams):
    keys = list(fams)
    k = keys[rng.randrange(len(keys))]
    idxs = fams[k]
    return idxs[rng.randrange(len(idxs))]


# ------------------------------------------------------------------ options
OPTION_POOL = [
    [], [], [], ['-+'], ['--emit=c99'], ['--emit=go'], ['-Cf'], ['-CF'], ['-Cem'], ['-Ca'], ['-Cfa'], ['-Ce'], ['-Cm'],
    ['-C'], ['-Cfe'], ['-CFe'], ['-Cr'], ['-f'], ['-F'], ['-R'], ['-L'], ['-i'], ['-B'], ['-I'], ['-7'], ['-8'],
    ['-l'], ['-X'], ['-d'], ['-v'], ['-p', '-p'], ['-s'], ['-w'], ['--yylineno'], ['-Pfoo'], ['--bison-bridge'],
    ['--bison-locations'], ['-R', '--bison-bridge'], ['-+', '--yyclass=Foo'], ['-Dfoo=bar'], ['--stdinit'],
    ['--nounistd'], ['--noyywrap'], ['--tables-verify'], ['-7', '-Cf'], ['-+', '-Cf'], ['--emit=c99', '-Cf'],
    ['--emit=c99', '-CF'], ['-R', '-Cem'], ['-i', '-Ca'], ['--array'], ['--pointer'], ['--reject'], ['--yymore'],
    ['--hex', '-d'], ['-T'], ['-n'], ['-c'], ['--main'], ['--nomain'], ['--stack'], ['--never-interactive'],
    ['--always-interactive'], ['--noyy_scan_string', '--noyyget_leng'], ['-P', 'a_very_long_prefix_' * 8],
]

# quick, always-valid sets used for the fault enumeration (something must be in flight)
FAULT_OPTS = [[], ['-+'], ['--emit=c99'], ['-Cf'], ['-CF'], ['-Cem'], ['-Ca'], ['-Cfa'], ['-R'], ['-L'], ['-i'],
              ['-B'], ['-7'], ['-d'], ['-v'], ['--yylineno'], ['-Pfoo'], ['-Ce'], ['-Cm'], ['-f'], ['-F'], ['-s'],
              ['--tables-verify'], ['-p']]


def pick_opts(rng, pool=None):
    pool = pool or OPTION_POOL
    o = list(pool[rng.randrange(len(pool))])
    if rng.random() < 0.25:
        extra = pool[rng.randrange(len(pool))]
        for x in extra:
            if x not in o:
                o.append(x)
    return o


def pick_outs(rng, full=False):
    if full:
        return {'scanner': 'file', 'header': True, 'tables': True, 'backup': rng.choice(['-b', 'file'])}
    return {
        'scanner': rng.choice(['file', 'file', 'stdout', 'stdout', 'stdout-file', 'default']),
        'header': rng.random() < 0.4,
        'tables': rng.random() < 0.3,
        'backup': rng.choice(['', '', '-b', 'file']),
    }


# ------------------------------------------------------------------ mutations
UNBAL = [b'{', b'}', b'"', b'[', b']', b'(', b')', b'/', b'\\', b'<', b'>', b'%{', b'%}', b'/*', b'*/', b"'",
         b'%%', b'|', b'^', b'$', b'<<EOF>>', b'{-}', b'{+}', b'[[', b']]', b'\n%%\n', b'\x00', b'\xff', b'\r',
         b'%top{', b'%option ', b'<*>', b'<INITIAL>{', b'(?', b'(?i:', b'[:alpha:]', b'[[:nope:]]', b'{9999999999}',
         b'{2,1}', b'[z-a]', b'\\x', b'\\777', b'm4_', b'M4_YY_', b'[[]]', b']]M4_YY_NOOP[[', b'%s', b'%n']

OPTION_WORDS = ['7bit', '8bit', 'align', 'always-interactive', 'array', 'backup', 'batch', 'bison-bridge',
                'bison-locations', 'c++', 'caseful', 'case-insensitive', 'debug', 'default', 'ecs', 'fast', 'full',
                'input', 'interactive', 'lex-compat', 'posix-compat', 'main', 'meta-ecs', 'never-interactive',
                'perf-report', 'pointer', 'read', 'reentrant', 'reject', 'stack', 'stdinit', 'stdout', 'unistd',
                'unput', 'verbose', 'warn', 'yylineno', 'yymore', 'yywrap', 'noyywrap', 'nodefault', 'noline',
                'tables-verify', 'yyclass="X"', 'prefix="zz"', 'outfile="o.c"', 'header-file="o.h"',
                'tables-file="o.t"', 'extra-type="int"', 'emit="c99"', 'emit="go"', 'emit="cpp"', 'emit="nope"',
                'bufsize=1', 'bufsize=99999999999', 'yylmax=0', 'yylmax=-1', 'noyy_top_state', 'nosuchoption',
                'yydecl="int x(void)"', 'prefix="[["', 'prefix=""', 'rewrite', 'yyterminate="return 0"',
                'pre-action="x"', 'post-action="y"', 'user-init="z"', 'noyyread', 'noyyalloc', 'noyypanic']


def _lines(b):
    return b.split(b'\n')


def _find_sections(b):
    """offsets of the first and second %% line (or None)"""
    offs = [m.start() for m in re.finditer(rb'(?m)^%%[ \t\r]*$', b)]
    first = offs[0] if offs else None
    second = offs[1] if len(offs) > 1 else None
    return first, second


def m_byte_delete(rng, b):
    if not b:
        return b
    n = rng.choice([1, 1, 1, 2, 5, 20])
    for _ in range(n):
        if not b:
            break
        i = rng.randrange(len(b))
        b = b[:i] + b[i + 1:]
    return b


def m_byte_dup(rng, b):
    if not b:
        return b
    i = rng.randrange(len(b))
    k = rng.choice([1, 1, 2, 8, 64])
    return b[:i] + b[i:i + k] * rng.choice([2, 2, 3, 50]) + b[i + k:]


def m_byte_flip(rng, b):
    if not b:
        return b
    ba = bytearray(b)
    for _ in range(rng.choice([1, 1, 2, 4, 16])):
        i = rng.randrange(len(ba))
        ba[i] = rng.choice([0, 255, 10, 13, 34, 37, 47, 60, 62, 91, 92, 93, 123, 125, rng.randrange(256)])
    return bytes(ba)


def m_line_delete(rng, b):
    ls = _lines(b)
    for _ in range(rng.choice([1, 1, 2, 5])):
        if len(ls) > 1:
            del ls[rng.randrange(len(ls))]
    return b'\n'.join(ls)


def m_line_dup(rng, b):
    ls = _lines(b)
    i = rng.randrange(len(ls))
    k = rng.choice([1, 1, 3, 10])
    ls[i:i + k] = ls[i:i + k] * rng.choice([2, 2, 3, 20])
    return b'\n'.join(ls)


def m_line_swap(rng, b):
    ls = _lines(b)
    if len(ls) < 2:
        return b
    i, j = rng.randrange(len(ls)), rng.randrange(len(ls))
    ls[i], ls[j] = ls[j], ls[i]
    return b'\n'.join(ls)


def m_truncate(rng, b):
    if not b:
        return b
    return b[:rng.randrange(len(b))]


def m_unbalance(rng, b):
    for _ in range(rng.choice([1, 1, 2, 3])):
        i = rng.randrange(len(b) + 1)
        b = b[:i] + rng.choice(UNBAL) + b[i:]
    return b


def m_option_line(rng, b):
    words = [rng.choice(OPTION_WORDS) for _ in range(rng.choice([1, 1, 2, 4]))]
    line = ('%option ' + ' '.join(words) + '\n').encode()
    first, _ = _find_sections(b)
    if first is None or rng.random() < 0.2:
        i = rng.randrange(len(b) + 1)
    else:
        # at the start of a line of section 1
        starts = [0] + [m.end() for m in re.finditer(rb'\n', b[:first])]
        i = rng.choice(starts)
    return b[:i] + line + b[i:]


def m_crlf(rng, b):
    return b.replace(b'\n', b'\r\n')


def m_huge_name(rng, b):
    n = rng.choice([200, 256, 1000, 2047, 2048, 2049, 5000, 70000])
    name = b'N' + b'a' * n
    kind = rng.choice(['def', 'sc', 'use', 'option', 'scuse'])
    first, second = _find_sections(b)
    if first is None:
        return name + b' [a-z]\n%%\n{' + name + b'} ;\n'
    if kind == 'def':
        return b[:first] + name + b' [a-z]+\n' + b[first:first + 3] + b'{' + name + b'} { }\n' + b[first + 3:]
    if kind == 'sc':
        return b[:first] + b'%x ' + name + b'\n' + b[first:first + 3] + b'<' + name + b'>x { }\n' + b[first + 3:]
    if kind == 'use':
        return b[:first + 3] + b'{' + name + b'} { }\n' + b[first + 3:]
    if kind == 'scuse':
        return b[:first + 3] + b'<' + name + b'>x { }\n' + b[first + 3:]
    return b'%option prefix="' + name + b'"\n' + b


def m_huge_line(rng, b):
    n = rng.choice([2047, 2048, 2049, 4096, 8192, 20000, 100000, 400000])
    kind = rng.choice(['alt', 'string', 'action', 'def', 'comment', 'ccl', 'cat', 'sect3', 'optline'])
    if kind not in ('action', 'comment', 'sect3'):
        # flex's own scanner is quadratic on some malformed long lines (error recovery retries
        # at every byte): 100 KB take seconds, 400 KB minutes
        n = min(n, 100000)
    if kind in ('alt', 'string', 'cat'):
        # one NFA state per byte; -Ca lifts the 32000-state limit and DFA construction is
        # quadratic in the length of a chain: 100000 take minutes (slow, not a hang)
        n = min(n, 20000)
    first, second = _find_sections(b)
    if kind == 'alt':
        line = b'|'.join([b'a%d' % (i % 97) for i in range(n // 4)]) + b' { }\n'
    elif kind == 'string':
        line = b'"' + b's' * n + b'" { }\n'
    elif kind == 'action':
        line = b'zz { ' + b'x=1;' * (n // 4) + b' }\n'
    elif kind == 'def':
        line = b'LONGDEF ' + b'(ab|c)' * (n // 6) + b'\n'
        if first is None:
            return line + b
        return b[:first] + line + b[first:]
    elif kind == 'comment':
        line = b'zz { /* ' + b'c' * n + b' */ }\n'
    elif kind == 'ccl':
        line = b'[' + b'a-z' * (n // 3) + b'] { }\n'
    elif kind == 'cat':
        line = b'q' * n + b' { }\n'
    elif kind == 'sect3':
        return b + b'\n%%\n' * (0 if second is not None else 1) + b'/* ' + b'x' * n + b' */\n'
    else:
        line = b'%option ' + b' '.join([b'warn'] * (n // 5)) + b'\n'
        return line + b
    if first is None:
        return b + b'\n%%\n' + line
    return b[:first + 3] + line + b[first + 3:]


def m_many_rules(rng, b):
    n = rng.choice([50, 300, 1000, 3000, 8190, 8191, 8192, 9000])
    kind = rng.choice(['kw', 'single', 'single', 'num', 'sc', 'eof'])
    first, second = _find_sections(b)
    if kind == 'kw':
        body = b''.join(b'kw%dz { return %d; }\n' % (i, i) for i in range(n))
    elif kind == 'single':
        body = b'a ;\n' * n
    elif kind == 'num':
        body = b''.join(b'%d ;\n' % i for i in range(n))
    elif kind == 'sc':
        n = min(n, 3000)
        decl = b''.join(b'%%x SC%d\n' % i for i in range(n))
        body = b''.join(b'<SC%d>a BEGIN(SC%d);\n' % (i, (i + 1) % n) for i in range(n))
        if first is None:
            return decl + b'%%\n' + body
        return b[:first] + decl + b[first:first + 3] + body + b[first + 3:]
    else:
        n = min(n, 3000)
        body = b''.join(b'<<EOF>> { return %d; }\n' % i for i in range(n))
    if first is None:
        return b + b'\n%%\n' + body
    return b[:first + 3] + body + b[first + 3:]


def m_deep_nest(rng, b):
    n = rng.choice([20, 100, 199, 200, 201, 1000, 5000, 9999, 10001, 30000])
    kind = rng.choice(['paren', 'paren', 'scope', 'brace-action', 'rep', 'ccl-op', 'defchain', 'trail'])
    first, second = _find_sections(b)
    pre = b''
    if kind == 'paren':
        line = b'(' * n + b'a' + b')' * n + b' { }\n'
    elif kind == 'scope':
        n = min(n, 5000)
        pre = b'%x NA NB\n'
        line = b''.join(b'<%s>{\n' % (b'NA' if i % 2 else b'NB') for i in range(n)) + b'x ;\n' + b'}\n' * n
    elif kind == 'brace-action':
        line = b'zz ' + b'{' * n + b'}' * n + b'\n'
    elif kind == 'rep':
        # (depth, bound) pairs whose DFA stays small or whose NFA exceeds the limit at once;
        # ((((a{1,10}){1,10}){1,10}){1,10}) is legitimate but takes half a minute
        k, m = rng.choice([(2, 10), (2, 30), (3, 10), (2, 200), (3, 50), (6, 10)])
        line = b'(' * k + b'a' + b'{1,%d})' % m * k + b' { }\n'
    elif kind == 'ccl-op':
        line = b'[a-z]' + b'{-}[aeiou]{+}[a-e]' * min(n, 3000) + b' { }\n'
    elif kind == 'defchain':
        n = min(n, 3000)
        pre = b'D0 a\n' + b''.join(b'D%d ({D%d}|b)\n' % (i, i - 1) for i in range(1, n))
        line = b'{D%d} { }\n' % (n - 1)
    else:
        line = b'a' + b'/b' * min(n, 50) + b' { }\n'
    if first is None:
        return pre + b + b'\n%%\n' + line
    return b[:first] + pre + b[first:first + 3] + line + b[first + 3:]


def m_recursive_def(rng, b):
    first, _ = _find_sections(b)
    kind = rng.choice(['self', 'mutual', 'undefined'])
    if kind == 'self':
        d = b'RR a{RR}\n'
        u = b'{RR} ;\n'
    elif kind == 'mutual':
        d = b'RA x{RB}\nRB y{RA}\n'
        u = b'{RA} ;\n'
    else:
        d = b''
        u = b'{NOSUCHDEF} ;\n'
    if first is None:
        return d + b'%%\n' + u
    return b[:first] + d + b[first:first + 3] + u + b[first + 3:]


def m_splice(rng, b, other):
    f1, _ = _find_sections(b)
    f2, _ = _find_sections(other)
    if f1 is None or f2 is None:
        return b + other
    return b[:f1] + other[f2:]


def m_garbage(rng, b):
    kind = rng.choice(['random', 'empty', 'pct', 'binary', 'nul', 'ascii'])
    if kind == 'random':
        return bytes(rng.randrange(256) for _ in range(rng.choice([1, 10, 100, 3000])))
    if kind == 'empty':
        return b''
    if kind == 'pct':
        return rng.choice([b'%%', b'%%\n', b'%%\n%%\n', b'%', b'%%%', b'%{\n', b'%%\n<', b'%%\n"', b'%%\n[', b'%%\n(',
                           b'%option', b'%x', b'%s\n%%\n<', b'%%\n<<EOF>>', b'%top{', b'%%\n.|\\n', b'\n\n%%\na/b/c ;'])
    if kind == 'binary':
        try:
            with open('/bin/true', 'rb') as f:
                return f.read(rng.choice([64, 4096, 20000]))
        except OSError:
            return b'\x7fELF\x00\x01'
    if kind == 'nul':
        return b'\x00' * rng.choice([1, 100, 5000])
    return bytes(rng.choice(b' \n\t%{}[]()<>"\\/|*+?.^$abcXYZ0123456789,-:=_') for _ in range(rng.choice([20, 200, 4000])))


MUTATORS = [
    ('byte-delete', m_byte_delete, 6), ('byte-dup', m_byte_dup, 3), ('byte-flip', m_byte_flip, 6),
    ('line-delete', m_line_delete, 6), ('line-dup', m_line_dup, 4), ('line-swap', m_line_swap, 3),
    ('truncate', m_truncate, 6), ('unbalance', m_unbalance, 10), ('option-line', m_option_line, 6),
    ('crlf', m_crlf, 1), ('huge-name', m_huge_name, 4), ('huge-line', m_huge_line, 4),
    ('many-rules', m_many_rules, 3), ('deep-nest', m_deep_nest, 4), ('recursive-def', m_recursive_def, 1),
    ('splice', None, 3), ('garbage', m_garbage, 2),
]
_WEIGHTED = [m for m in MUTATORS for _ in range(m[2])]
HEAVY = ('huge-name', 'huge-line', 'many-rules', 'deep-nest')


def mutate(rng, b, corpus, max_steps=3):
    """returns (bytes, [mutator names])"""
    names = []
    steps = rng.choice([1, 1, 1, 2, 2, 3][:max(1, max_steps * 2)])
    heavy = False
    for _ in range(steps):
        name, fn, _w = _WEIGHTED[rng.randrange(len(_WEIGHTED))]
        if name in HEAVY:
            if heavy:
                continue
            heavy = True
        if name == 'splice':
            other = corpus[rng.randrange(len(corpus))][1]
            b = m_splice(rng, b, other)
        else:
            b = fn(rng, b)
        names.append(name)
    return b, names

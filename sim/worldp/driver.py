"""Driver shared by the two flex-process checks (C16, C18): scratch setup and
flex builds, worker pool, violation pipeline (determinism gate -> minimise ->
replay file -> fresh-process replay -> known findings) and the evidence file.

A property module hands in a `Spec` object with:
  ID, LEVEL, RULE, COMPONENTS, ASSUMPTIONS
  plan(tier, seed, env) -> list of picklable task tuples
  work(env, task) -> TaskResult
  recheck(env, viol) -> (persists: bool, detail: str, gate_key: str, observed: dict)
  features(viol) -> dict            (always contains 'class')
  signature(viol) -> tuple          (dedupe key)
  shrink_candidates ... see minimise()
"""
from __future__ import annotations
import base64
import collections
import concurrent.futures
import hashlib
import json
import multiprocessing
import os
import shutil
import subprocess
import sys
import time
import traceback

from simlib import common, engine
from . import runner

MAX_REPORTED = 6


class Env:
    """what a worker needs; picklable"""

    def __init__(self, prop, tier, seed, workdir, flex, flex_san, tools):
        self.prop = prop
        self.tier = tier
        self.seed = seed
        self.workdir = workdir
        self.flex = flex
        self.flex_san = flex_san
        self.tools = tools

    def rng(self, *parts):
        return common.rng_for(self.seed, self.prop, *parts)


class TaskResult:
    def __init__(self):
        self.evaluations = 0
        self.nontrivial = set()
        self.stats = collections.Counter()
        self.violations = []      # dicts
        self.samples = []
        self.inputs = set()
        self.option_sets = set()
        self.error = None
        self.notes = []

    def merge(self, o):
        self.evaluations += o.evaluations
        self.nontrivial |= o.nontrivial
        self.stats.update(o.stats)
        self.violations.extend(o.violations)
        self.inputs |= o.inputs
        self.option_sets |= o.option_sets
        have = set(s.get('tag') for s in self.samples if isinstance(s, dict))
        for s in o.samples:
            tag = s.get('tag') if isinstance(s, dict) else None
            if len(self.samples) < 14 and (tag is None or tag not in have):
                self.samples.append(s)
                have.add(tag)
        self.notes.extend(o.notes[:4])
        if o.error and not self.error:
            self.error = o.error


def use_known_override():
    p = os.environ.get('VERIF_KNOWN_OVERRIDE')
    if p:
        engine.KNOWN = p


# ------------------------------------------------------------------ setup
def setup(prop, tier, seed, need_plain=True, need_san=False, log=engine.log):
    """scratch dir + flex builds (or the prebuilt binaries named by
    VERIF_FLEX_OVERRIDE / VERIF_FLEX_SAN_OVERRIDE) + helper tools"""
    workdir = common.scratch('flexsim-%s-' % prop)
    os.chmod(workdir, 0o755)
    ov = os.environ.get('VERIF_FLEX_OVERRIDE')
    ovs = os.environ.get('VERIF_FLEX_SAN_OVERRIDE')
    flex = flex_san = None
    jobs = {}
    with concurrent.futures.ThreadPoolExecutor(2) as ex:
        if need_plain:
            if ov:
                flex = ov
            else:
                jobs['plain'] = ex.submit(common.build_flex, workdir, None, False, log)
        if need_san:
            if ovs:
                flex_san = ovs
            elif ov:
                # an override without a sanitizer twin: use the override for both roles
                flex_san = None
            else:
                jobs['san'] = ex.submit(common.build_flex, workdir, None, True, log)
        if 'plain' in jobs:
            flex = jobs['plain'].result()
        if 'san' in jobs:
            flex_san = jobs['san'].result()
    for f in (flex, flex_san):
        if f and not os.access(f, os.X_OK):
            raise common.BuildError('flex binary %s is not executable' % f)
    tools = runner.build_tools(workdir)
    # the fault "read-only directory" runs flex as an unprivileged user: the
    # binaries must be reachable for it
    return Env(prop, tier, seed, workdir, flex, flex_san, tools)


# ------------------------------------------------------------------ pool
_G = {}


def _init_worker(mod_name, env):
    del common._scratch_dirs[:]
    import signal
    for s_ in (signal.SIGTERM, signal.SIGINT, signal.SIGHUP):
        signal.signal(s_, signal.SIG_DFL)
    _G['mod'] = __import__('props.' + mod_name, fromlist=['x'])
    _G['env'] = env


def _work(item):
    i, task = item
    mod = _G['mod']
    env = _G['env']
    try:
        r = mod.work(env, task)
    except Exception:
        r = TaskResult()
        r.error = 'task %r: %s' % (task, traceback.format_exc())
    return i, r


def run_pool(mod, env, tasks):
    total = TaskResult()
    mod_name = mod.__name__.split('.')[-1]
    nproc = min(common.NCPU, max(1, len(tasks)))
    results = {}
    with multiprocessing.Pool(nproc, initializer=_init_worker, initargs=(mod_name, env)) as pool:
        for i, r in pool.imap_unordered(_work, list(enumerate(tasks)), chunksize=1):
            results[i] = r
    for i in sorted(results):
        total.merge(results[i])
    return total


# ------------------------------------------------------------------ shrinking
def ddmin_lines(data, test, budget):
    """ddmin over the lines of `data`; test(bytes)->bool (True = still fails).
    budget: [remaining test calls]"""
    lines = data.split(b'\n')

    def t(ls):
        return test(b'\n'.join(ls))
    lines = engine.ddmin_list(lines, t, budget)
    return b'\n'.join(lines)


# ------------------------------------------------------------------ replay files
def viol_to_json(v):
    j = dict(v)
    cmd = dict(v['cmd'])
    cmd['input_b64'] = base64.b64encode(cmd.pop('input')).decode()
    j['cmd'] = cmd
    return j


def viol_from_json(j):
    v = dict(j)
    cmd = dict(j['cmd'])
    cmd['input'] = base64.b64decode(cmd.pop('input_b64'))
    v['cmd'] = cmd
    return v


def write_replay(prop, v, extra):
    os.makedirs(engine.REPLAY_DIR, exist_ok=True)
    j = viol_to_json(v)
    j.update(extra)
    j['property'] = prop
    blob = json.dumps(j, sort_keys=True, indent=1)
    h = hashlib.sha1(json.dumps({k: j[k] for k in ('cmd', 'fault', 'envspecs', 'routing', 'class', 'feats') if k in j},
                                sort_keys=True).encode()).hexdigest()[:12]
    path = os.path.join(engine.REPLAY_DIR, '%s-%s.json' % (prop, h))
    with open(path, 'w') as f:
        f.write(blob)
    return path


def fresh_replay(path, env):
    """run the public replay command in a fresh process.  The binaries built
    for this run are handed over so that the confirmation does not rebuild."""
    e = dict(os.environ)
    if env.flex:
        e['VERIF_FLEX_OVERRIDE'] = env.flex
    if env.flex_san:
        e['VERIF_FLEX_SAN_OVERRIDE'] = env.flex_san
    p = subprocess.run([sys.executable, os.path.join(common.VERIF, 'sim', 'check.py'), '--replay', path],
                       stdout=subprocess.PIPE, stderr=subprocess.PIPE, text=True, env=e)
    return ('REPRODUCED' in p.stdout and 'NOT-REPRODUCED' not in p.stdout), p.stdout[-600:] + p.stderr[-600:]


# ------------------------------------------------------------------ violation pipeline
def process_violations(mod, env, viols, log=engine.log):
    """returns (lines, n_viol, n_known, infra_msg, records)"""
    lines = []
    records = []
    n_viol = n_known = 0
    infra = None
    unrepro = []
    seen_sig = {}
    known_reported = set()
    ordered = sorted(viols, key=lambda v: (mod.signature(v), v.get('where', '')))
    for v in ordered:
        sig = mod.signature(v)
        if sig in seen_sig:
            seen_sig[sig] += 1
            continue
        seen_sig[sig] = 1
        if n_viol >= MAX_REPORTED:
            continue
        try:
            res = process_one(mod, env, v, log)
        except Exception:
            infra = 'processing violation %s failed: %s' % (sig, traceback.format_exc())
            break
        if res['status'] == 'infra':
            # one candidate that does not repeat (a pipeline collapsing under a vanished reader is a race)
            # must not keep the others from being examined; it still makes the run inconclusive if
            # nothing reproducible is found
            unrepro.append(res['msg'])
            if len(unrepro) >= 12:
                break
            continue
        records.append(res)
        if res['status'] == 'known':
            n_known += 1
            if res['known_id'] not in known_reported:
                known_reported.add(res['known_id'])
                lines.append('KNOWN-FINDING: property=%s %s [%s] (replay=%s)' % (mod.ID, res['what'], res['known_id'], res['path']))
        else:
            n_viol += 1
            lines.append('VIOLATION property=%s replay=%s' % (mod.ID, res['path']))
            lines.append('  class=%s %s' % (v['class'], res['detail'][:500]))
    if unrepro and infra is None:
        infra = '%d candidate violation(s) did not repeat; first: %s' % (len(unrepro), unrepro[0])
    return lines, n_viol, n_known, infra, records, seen_sig


def process_one(mod, env, v, log):
    cls = v['class']
    # determinism gate: the finding run plus two more, all identical
    r1 = mod.recheck(env, v)
    r2 = mod.recheck(env, v) if getattr(mod, 'GATE_RUNS', {}).get(cls, 2) > 1 else r1
    keys = {v.get('gate_key'), r1[2], r2[2]}
    if not (r1[0] and r2[0]) or len(keys) != 1:
        return {'status': 'infra', 'msg': 'violation %s (%s) is not reproducible: first=%s again=%s/%s again=%s/%s :: %s' % (
            cls, v.get('where'), v.get('gate_key'), r1[0], r1[2], r2[0], r2[2], runner.shell_line(v['cmd'], v.get('fault')))}
    small = dict(v)
    used = 0
    if getattr(mod, 'SHRINK', True) and cls not in getattr(mod, 'NO_SHRINK_CLASSES', ()) and (v.get('mutators') or getattr(mod, 'SHRINK_ALWAYS', False)):
        budget = [getattr(mod, 'SHRINK_BUDGET', 60)]
        start = budget[0]

        def test(data):
            c = dict(small)
            c['cmd'] = dict(small['cmd'], input=data)
            try:
                return mod.recheck(env, c, quick=True)[0]
            except Exception:
                return False
        data = ddmin_lines(small['cmd']['input'], test, budget)
        used = start - budget[0]
        cand = dict(small)
        cand['cmd'] = dict(small['cmd'], input=data)
        if mod.recheck(env, cand)[0]:
            small = cand
    ok, detail, gkey, observed = mod.recheck(env, small)
    if not ok:
        small = dict(v)
        ok, detail, gkey, observed = mod.recheck(env, small)
        if not ok:
            return {'status': 'infra', 'msg': 'violation %s vanished after the determinism gate' % cls}
    small['detail'] = detail
    small['gate_key'] = gkey
    feats = mod.features(small)
    extra = {
        'features': feats, 'seed': env.seed, 'observed': observed, 'shrink_runs': used,
        'argv': runner.argv_of(small['cmd']), 'cwd': 'a fresh directory holding the input as ' + runner.IN_NAME,
        'env': runner.base_env(san=bool(env.flex_san) and mod.ID == 'C16'),
        'env_note': 'a fault or perturbation adds M4/WP_M4_* (m4 stub), LD_PRELOAD/WP_MSHIM_* (allocator shim) and the variables listed in envspecs',
        'shell': runner.shell_line(small['cmd'], small.get('fault')),
        'fault_description': runner.describe_fault(small.get('fault')),
        'input_text_preview': small['cmd']['input'][:400].decode('latin-1'),
    }
    path = write_replay(mod.ID, small, extra)
    ok, out = fresh_replay(path, env)
    if not ok:
        return {'status': 'infra', 'msg': 'fresh-process replay of %s did not reproduce: %s' % (path, out)}
    e = engine.match_known(mod.ID, feats)
    if e is not None:
        return {'status': 'known', 'known_id': e['id'], 'what': e['what'], 'path': path, 'detail': detail, 'features': feats}
    return {'status': 'violation', 'path': path, 'detail': detail, 'features': feats}


def clean_old_replays(prop):
    os.makedirs(engine.REPLAY_DIR, exist_ok=True)
    for fn in os.listdir(engine.REPLAY_DIR):
        if fn.startswith(prop + '-') and fn.endswith('.json'):
            try:
                os.unlink(os.path.join(engine.REPLAY_DIR, fn))
            except OSError:
                pass


# ------------------------------------------------------------------ evidence
def write_evidence(mod, tier, seed, total, wall, n_viol, lines, known=0, error=None, extra=None, sig_counts=None):
    os.makedirs(engine.EVIDENCE_DIR, exist_ok=True)
    stats = dict(sorted(total.stats.items()))
    faults = {k[6:]: v for k, v in stats.items() if k.startswith('fired:')}
    other = {k: v for k, v in stats.items() if not k.startswith('fired:')}
    cov = {
        'evaluations': total.evaluations,
        'distinct_nontrivial': len(total.nontrivial),
        'rule': mod.RULE,
        'samples': total.samples[:14] or ['(no case was run)'],
        'faults_injected': faults,
        'inputs': len(total.inputs),
        'option_sets': len(total.option_sets),
        'runs_per_hour': int(total.evaluations / wall * 3600) if wall > 0 else 0,
        'components': mod.COMPONENTS,
        'simulated_time': 'not applicable: flex reads no clock',
        'counters': other,
        'known_finding_hits': known,
        'violation_signatures_seen': {' '.join(str(x) for x in k): v for k, v in sorted((sig_counts or {}).items())},
        'report': lines[:24],
        'notes': total.notes[:12],
    }
    if extra:
        cov.update(extra)
    if error:
        cov['infrastructure_error'] = error[:3000]
    ev = {
        'property_id': mod.ID, 'tier': tier, 'seed': int(seed), 'level': mod.LEVEL, 'wall_s': round(wall, 2),
        'violations': n_viol, 'coverage': cov, 'assumptions': mod.ASSUMPTIONS,
    }
    with open(os.path.join(engine.EVIDENCE_DIR, mod.ID + '.json'), 'w') as fh:
        json.dump(ev, fh, indent=1, sort_keys=False)


# ------------------------------------------------------------------ top level
def run_check(mod, tier, seed, need_san):
    t0 = time.time()
    use_known_override()
    common.install_signal_cleanup()
    clean_old_replays(mod.ID)
    total = TaskResult()
    try:
        env = setup(mod.ID, tier, seed, need_plain=True, need_san=need_san)
    except Exception as e:
        msg = 'setup failed: %s' % e
        print('ERROR: ' + msg)
        total.evaluations = 0
        write_evidence(mod, tier, seed, total, time.time() - t0, 0, [], error=msg)
        return 2
    extra = {}
    lines = []
    n_viol = n_known = 0
    infra = None
    sigs = {}
    try:
        pre = mod.prepare(env) if hasattr(mod, 'prepare') else None
        if pre:
            extra.update(pre.get('evidence', {}))
            if pre.get('error'):
                raise RuntimeError(pre['error'])
        tasks = mod.plan(tier, seed, env)
        total = run_pool(mod, env, tasks)
        engine.log('%s %s: %d tasks, %d flex runs judged, %d raw violations in %.1fs' % (
            mod.ID, tier, len(tasks), total.evaluations, len(total.violations), time.time() - t0))
        if total.error:
            infra = 'worker failed: ' + total.error
        else:
            lines, n_viol, n_known, infra, records, sigs = process_violations(mod, env, total.violations)
    except Exception:
        infra = traceback.format_exc()
    wall = time.time() - t0
    if hasattr(mod, 'evidence_extra'):
        try:
            extra.update(mod.evidence_extra(env, total))
        except Exception:
            pass
    write_evidence(mod, tier, seed, total, wall, n_viol, lines, known=n_known, error=infra, extra=extra, sig_counts=sigs)
    for l in lines:
        print(l)
    if infra:
        print('ERROR: infrastructure fault (not a verdict): %s' % infra)
        return 1 if n_viol else 2
    print('%s %s seed=%d: %d flex runs judged, %d distinct non-trivial cases, %d violation(s), %d known finding hit(s), %.1fs' % (
        mod.ID, tier, seed, total.evaluations, len(total.nontrivial), n_viol, n_known, wall))
    return 1 if n_viol else 0


def run_replay(mod, path, need_san_of=lambda rep: False):
    use_known_override()
    with open(path) as fh:
        rep = json.load(fh)
    v = viol_from_json(rep)
    need_san = need_san_of(rep)
    try:
        env = setup(mod.ID, 'quick', rep.get('seed', 1), need_plain=True, need_san=need_san)
    except Exception as e:
        print('ERROR: setup failed: %s' % e)
        return 2
    ok, detail, gkey, observed = mod.recheck(env, v)
    if ok:
        same = gkey == rep.get('gate_key')
        print('REPRODUCED property=%s class=%s%s' % (mod.ID, rep['class'], '' if same else ' (observation differs in detail from the recorded one)'))
        print('  ' + rep.get('shell', ''))
        print('  ' + detail[:800])
        print('VIOLATION property=%s replay=%s' % (mod.ID, os.path.abspath(path)))
        return 1
    print('NOT-REPRODUCED property=%s class=%s' % (mod.ID, rep['class']))
    if detail:
        print('  ' + detail[:400])
    return 0

/* m4stub - stands in for m4 in flex's filter chain (flex honours $M4).
 *
 * It slurps its whole standard input, decides which branch of flex's pipeline
 * it serves (the header branch defines M4_YY_IN_HEADER in its preamble, the
 * scanner branch does not), runs the real m4 on the saved input and forwards
 * the real output.  For the selected branch it forwards only the first N
 * bytes and then fails in the requested way.
 *
 *   WP_M4_REAL    path of the real m4
 *   WP_M4_MODE    ok | exit1 | signal            (default ok)
 *   WP_M4_N       bytes of real output to let through before failing
 *   WP_M4_BRANCH  c | header | both               (default both)
 *   WP_M4_MARK    file to append one line per invocation:
 *                 "<branch> <bytes forwarded> <bytes available> <failed 0|1>"
 */
#define _GNU_SOURCE
#include <errno.h>
#include <fcntl.h>
#include <signal.h>
#include <stdio.h>
#include <stdlib.h>
#include <string.h>
#include <sys/mman.h>
#include <sys/types.h>
#include <sys/wait.h>
#include <unistd.h>

static void mark(const char *branch, long fwd, long avail, int failed)
{
	const char *p = getenv("WP_M4_MARK");
	char line[128];
	int fd, n;
	if (!p)
		return;
	fd = open(p, O_WRONLY | O_CREAT | O_APPEND, 0644);
	if (fd < 0)
		return;
	n = snprintf(line, sizeof line, "%s %ld %ld %d\n", branch, fwd, avail, failed);
	if (write(fd, line, (size_t) n) < 0) {
	}
	close(fd);
}

static int write_all(int fd, const char *b, size_t n)
{
	while (n > 0) {
		ssize_t w = write(fd, b, n);
		if (w < 0) {
			if (errno == EINTR)
				continue;
			return -1;
		}
		b += w;
		n -= (size_t) w;
	}
	return 0;
}

int main(int argc, char **argv)
{
	const char *real = getenv("WP_M4_REAL");
	const char *mode = getenv("WP_M4_MODE");
	const char *sel = getenv("WP_M4_BRANCH");
	const char *ns = getenv("WP_M4_N");
	long limit = ns ? atol(ns) : 0;
	char *in = NULL, *out = NULL;
	size_t inlen = 0, incap = 0, outlen = 0, outcap = 0;
	const char *branch;
	int mfd, pfd[2], status = 0, selected;
	pid_t pid;
	(void) argc;

	if (!real)
		real = "/usr/bin/m4";
	if (!mode)
		mode = "ok";
	if (!sel)
		sel = "both";

	for (;;) {
		ssize_t r;
		if (incap - inlen < 65536) {
			incap = incap ? incap * 2 : 1 << 18;
			in = realloc(in, incap);
			if (!in)
				return 99;
		}
		r = read(0, in + inlen, incap - inlen);
		if (r < 0) {
			if (errno == EINTR)
				continue;
			return 98;
		}
		if (r == 0)
			break;
		inlen += (size_t) r;
	}
	branch = memmem(in, inlen < 4096 ? inlen : 4096, "M4_YY_IN_HEADER", 15) ? "header" : "c";
	selected = strcmp(mode, "ok") != 0 && (strcmp(sel, "both") == 0 || strcmp(sel, branch) == 0);

	mfd = memfd_create("m4in", 0);
	if (mfd < 0 || write_all(mfd, in, inlen) < 0 || lseek(mfd, 0, SEEK_SET) < 0)
		return 97;
	free(in);
	if (pipe(pfd) < 0)
		return 96;
	pid = fork();
	if (pid < 0)
		return 95;
	if (pid == 0) {
		dup2(mfd, 0);
		dup2(pfd[1], 1);
		close(mfd);
		close(pfd[0]);
		close(pfd[1]);
		argv[0] = (char *) real;
		execv(real, argv);
		_exit(127);
	}
	close(pfd[1]);
	close(mfd);
	/* collect the whole real output first: the cut is then exact */
	for (;;) {
		ssize_t r;
		if (outcap - outlen < 65536) {
			outcap = outcap ? outcap * 2 : 1 << 18;
			out = realloc(out, outcap);
			if (!out)
				return 94;
		}
		r = read(pfd[0], out + outlen, outcap - outlen);
		if (r < 0) {
			if (errno == EINTR)
				continue;
			break;
		}
		if (r == 0)
			break;
		outlen += (size_t) r;
	}
	waitpid(pid, &status, 0);

	if (!selected) {
		int rc = WIFEXITED(status) ? WEXITSTATUS(status) : 1;
		int wr = write_all(1, out, outlen);
		mark(branch, wr < 0 ? -1 : (long) outlen, (long) outlen, 0);
		return wr < 0 ? 1 : rc;
	}
	{
		size_t n = (size_t) limit < outlen ? (size_t) limit : outlen;
		int wr = write_all(1, out, n);
		mark(branch, wr < 0 ? -1 : (long) n, (long) outlen, 1);
		close(1);
		if (strcmp(mode, "signal") == 0) {
			signal(SIGKILL, SIG_DFL);
			kill(getpid(), SIGKILL);
			pause();
		}
		return 1;
	}
}

/* mshim - LD_PRELOAD allocator perturbation for the C18 check.
 *
 * Wraps malloc/calloc/realloc/free on top of glibc's __libc_* entry points
 * without a private header (so pointers from memalign & co stay valid):
 *   - fresh memory is filled with seeded pseudo-random junk (whole usable size)
 *   - grown memory (realloc tail) is filled with junk
 *   - every request is padded by a seeded random amount (moves the heap layout)
 *   - realloc always moves the block
 *   - freed memory is overwritten before it is released
 *
 *   WP_MSHIM_SEED   decimal seed (default 1)
 *   WP_MSHIM_MODE   bit mask: 1 junk, 2 pad, 4 moving realloc, 8 poison on free
 *                   (default 15)
 *   WP_MSHIM_MARK   file that gets one line "<pid> <mallocs> <reallocs> <junk bytes>"
 *                   appended when a process that used the shim exits
 */
#define _GNU_SOURCE
#include <malloc.h>
#include <stddef.h>
#include <stdint.h>
#include <stdlib.h>
#include <string.h>
#include <fcntl.h>
#include <unistd.h>

extern void *__libc_malloc(size_t);
extern void *__libc_calloc(size_t, size_t);
extern void *__libc_realloc(void *, size_t);
extern void __libc_free(void *);

static uint64_t rng_state;
static int mode = -1;
static unsigned long n_malloc, n_realloc, n_junk;
static const char *mark_path;

static uint64_t rnd(void)
{
	uint64_t x = rng_state;
	x ^= x << 13;
	x ^= x >> 7;
	x ^= x << 17;
	rng_state = x;
	return x;
}

static void report(void)
{
	char line[160];
	int fd, n = 0;
	unsigned long v[4];
	int i;
	if (!mark_path)
		return;
	fd = open(mark_path, O_WRONLY | O_CREAT | O_APPEND, 0644);
	if (fd < 0)
		return;
	v[0] = (unsigned long) getpid();
	v[1] = n_malloc;
	v[2] = n_realloc;
	v[3] = n_junk;
	/* no stdio here: it may already be shut down */
	for (i = 0; i < 4; i++) {
		char tmp[24];
		int k = 0;
		unsigned long x = v[i];
		do {
			tmp[k++] = (char) ('0' + x % 10);
			x /= 10;
		} while (x);
		while (k)
			line[n++] = tmp[--k];
		line[n++] = i == 3 ? '\n' : ' ';
	}
	if (write(fd, line, (size_t) n) < 0) {
	}
	close(fd);
}

static void init(void)
{
	const char *s = getenv("WP_MSHIM_SEED");
	const char *m = getenv("WP_MSHIM_MODE");
	uint64_t seed = s ? strtoull(s, NULL, 10) : 1;
	rng_state = seed * 0x9E3779B97F4A7C15ull + 0x1234567ull;
	if (!rng_state)
		rng_state = 1;
	mode = m ? atoi(m) : 15;
	mark_path = getenv("WP_MSHIM_MARK");
	if (mark_path)
		atexit(report);
}

static void junk(void *p, size_t from, size_t to)
{
	unsigned char *b = p;
	uint64_t r = rnd();
	size_t i;
	if (to <= from)
		return;
	n_junk += to - from;
	for (i = from; i < to; i++) {
		b[i] = (unsigned char) (r >> 32) | 1;	/* never NUL: unterminated strings show */
		r = r * 6364136223846793005ull + 1442695040888963407ull;
	}
}

static size_t pad(void)
{
	if (!(mode & 2))
		return 0;
	return (size_t) (rnd() % 9) * 8 + (rnd() % 16 == 0 ? 4096 : 0);
}

void *malloc(size_t n)
{
	void *p;
	if (mode < 0)
		init();
	n_malloc++;
	p = __libc_malloc(n + pad());
	if (p && (mode & 1))
		junk(p, 0, malloc_usable_size(p));
	return p;
}

void *calloc(size_t a, size_t b)
{
	size_t n;
	void *p;
	if (mode < 0)
		init();
	if (__builtin_mul_overflow(a, b, &n))
		return NULL;
	n_malloc++;
	p = __libc_calloc(1, n + pad());
	if (p && (mode & 1))
		junk(p, n, malloc_usable_size(p));
	return p;
}

void free(void *p)
{
	if (mode < 0)
		init();
	if (p && (mode & 8))
		junk(p, 0, malloc_usable_size(p));
	__libc_free(p);
}

void *realloc(void *old, size_t n);

void *reallocarray(void *old, size_t a, size_t b)
{
	size_t n;
	if (__builtin_mul_overflow(a, b, &n))
		return NULL;
	return realloc(old, n);
}

void *realloc(void *old, size_t n)
{
	void *p;
	size_t oldsz, keep;
	if (mode < 0)
		init();
	if (!old)
		return malloc(n);
	if (n == 0) {
		free(old);
		return NULL;
	}
	n_realloc++;
	if (!(mode & 4)) {
		oldsz = malloc_usable_size(old);
		p = __libc_realloc(old, n + pad());
		if (p && (mode & 1))
			junk(p, oldsz < n ? oldsz : n, malloc_usable_size(p));
		return p;
	}
	oldsz = malloc_usable_size(old);
	p = __libc_malloc(n + pad());
	if (!p)
		return NULL;
	keep = oldsz < n ? oldsz : n;
	memcpy(p, old, keep);
	if (mode & 1)
		junk(p, keep, malloc_usable_size(p));
	free(old);
	return p;
}

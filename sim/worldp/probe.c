/* probe - prints the facts of its process environment that the C18
 * perturbations are meant to change, one "key value" per line, so that the
 * check can verify that a perturbation was really applied before it counts
 * runs made under it. */
#define _GNU_SOURCE
#include <fcntl.h>
#include <locale.h>
#include <sched.h>
#include <stdint.h>
#include <stdio.h>
#include <stdlib.h>
#include <string.h>
#include <sys/resource.h>
#include <unistd.h>

extern char **environ;

int main(void)
{
	int local = 0;
	unsigned char *a, *b, *c;
	size_t envbytes = 0, i;
	char cwd[4096];
	cpu_set_t set;
	struct rlimit rl;
	char **e;
	void *brk0 = sbrk(0);

	a = malloc(100);
	printf("fresh_byte %u\n", (unsigned) a[50]);
	memset(a, 0x11, 100);
	free(a);
	{
		/* deliberate look at freed memory (too big for the tcache, so free() perturbs it) */
		volatile unsigned char *big = malloc(3000);
		void *guard = malloc(16);
		memset((void *) big, 0x11, 3000);
		free((void *) big);
		printf("freed_byte %u\n", (unsigned) big[1000]);
		(void) guard;
	}
	b = malloc(100);
	printf("reused_byte %u\n", (unsigned) b[50]);
	b = realloc(b, 5000);
	printf("grown_byte %u\n", (unsigned) b[4000]);
	c = malloc(8000);
	printf("small_addr %p\n", (void *) a);
	printf("mid_in_mmap %d\n", (uintptr_t) c > (uintptr_t) 0x700000000000ull);
	printf("mid_addr %p\n", (void *) c);
	c = malloc(100000);
	c = malloc(100000);	/* does not fit into the initial top chunk any more */
	printf("big_in_mmap %d\n", (uintptr_t) c > (uintptr_t) 0x700000000000ull);
	printf("brk_growth %ld\n", (long) ((char *) sbrk(0) - (char *) brk0));
	printf("stack_addr %p\n", (void *) &local);
	for (e = environ; *e; e++)
		envbytes += strlen(*e) + 1;
	printf("env_bytes %zu\n", envbytes);
	printf("cwd %s\n", getcwd(cwd, sizeof cwd) ? cwd : "?");
	printf("pid %d\n", (int) getpid());
	printf("locale %s\n", setlocale(LC_ALL, "") ? setlocale(LC_ALL, NULL) : "(unsupported)");
	printf("mb_cur_max %d\n", (int) MB_CUR_MAX);
	CPU_ZERO(&set);
	if (sched_getaffinity(0, sizeof set, &set) == 0)
		printf("cpus %d\n", CPU_COUNT(&set));
	printf("nice %d\n", getpriority(PRIO_PROCESS, 0));
	if (getrlimit(RLIMIT_STACK, &rl) == 0)
		printf("stack_limit %lld\n", (long long) rl.rlim_cur);
	printf("stdin_open %d\n", fcntl(0, F_GETFD) != -1);
	for (i = 0; i < 3; i++)
		if (write(1, "", 0) < 0)
			return 1;
	return 0;
}

"""Run one flex process tree in a controlled environment with at most one
injected fault, and record everything that can be observed from outside:
exit status / signal, stdout, stderr, every requested output file.

A *command* is a plain dict (JSON-able, it is what replay files store):
  {'input': bytes, 'opts': [...], 'outs': {'scanner': 'file'|'stdout'|'stdout-file'|'default',
                                           'header': bool, 'tables': bool, 'backup': ''|'-b'|'file'}}
A *fault* is a dict {'kind': ..., 'file': scanner|header|tables|backup, ...}; see FAULT KINDS.
An *env spec* (C18 perturbations) is a dict, see apply_envspec().
"""
from __future__ import annotations
import fcntl
import hashlib
import os
import re
import resource
import select
import shutil
import signal
import subprocess
import time

TIMEOUT = float(os.environ.get('VERIF_WP_TIMEOUT', '10'))
F_SETPIPE_SZ = 1031
REAL_M4 = shutil.which('m4') or '/usr/bin/m4'
NOBODY = 65534
ADDR_NO_RANDOMIZE = 0x0040000
try:
    import ctypes
    _LIBC = ctypes.CDLL(None, use_errno=True)
    _LIBC.personality.argtypes = [ctypes.c_ulong]
except Exception:       # pragma: no cover
    _LIBC = None

IN_NAME = 'in.l'
NAMES = {'scanner': 'out.c', 'header': 'out.h', 'tables': 'out.tables', 'backup': 'out.backup'}

# soft_rss_limit_mb: past it malloc returns NULL (flex then reports an allocation failure) instead of eating the machine
ASAN_OPTIONS = 'exitcode=77:detect_leaks=0:abort_on_error=0:allocator_may_return_null=1:handle_abort=1:soft_rss_limit_mb=3072'
UBSAN_OPTIONS = 'halt_on_error=1:exitcode=77:print_stacktrace=1'

CRASH_SIGNALS = (signal.SIGSEGV, signal.SIGABRT, signal.SIGBUS, signal.SIGILL, signal.SIGFPE)
SAN_RE = re.compile(r'(ERROR: (Address|Leak|Memory|Undefined)Sanitizer|AddressSanitizer:|runtime error:|SUMMARY: \w+Sanitizer)')


RSS_NOTE_RE = re.compile(r'[^\n]*(soft rss limit|failed to allocate|allocator is out of memory|requested allocation size)[^\n]*\n?')


def sha(b):
    return hashlib.sha256(b).hexdigest()[:20]


# ------------------------------------------------------------------ command line
def out_path(cmd, which):
    """relative path of output `which` as flex is told (None = not requested)"""
    o = cmd['outs']
    if which == 'scanner':
        m = o.get('scanner', 'file')
        if m in ('file', 'stdout-file'):
            return NAMES['scanner']
        if m == 'default':
            return 'lex.yy.cc' if '-+' in cmd['opts'] or '--c++' in cmd['opts'] else 'lex.yy.c'
        return None          # pipe
    if which == 'header':
        return NAMES['header'] if o.get('header') else None
    if which == 'tables':
        return NAMES['tables'] if o.get('tables') else None
    if which == 'backup':
        b = o.get('backup', '')
        if b == '-b':
            return 'lex.backup'
        if b == 'file':
            return NAMES['backup']
        return None
    raise KeyError(which)


def requested(cmd):
    r = [w for w in ('scanner', 'header', 'tables', 'backup') if out_path(cmd, w) is not None]
    if cmd['outs'].get('scanner', 'file') == 'stdout':
        r.insert(0, 'scanner')
    return r


def argv_of(cmd):
    a = ['flex'] + list(cmd['opts'])
    o = cmd['outs']
    m = o.get('scanner', 'file')
    if m == 'file':
        a += ['-o', NAMES['scanner']]
    elif m in ('stdout', 'stdout-file'):
        a += ['-t']
    if o.get('header'):
        a += ['--header-file=' + NAMES['header']]
    if o.get('tables'):
        a += ['--tables-file=' + NAMES['tables']]
    b = o.get('backup', '')
    if b == '-b':
        a += ['-b']
    elif b == 'file':
        a += ['--backup-file=' + NAMES['backup']]
    a.append(IN_NAME)
    return a


def shell_line(cmd, fault=None, envspec=None):
    """human readable equivalent (for reports)"""
    a = argv_of(cmd)
    s = ' '.join(a)
    if cmd['outs'].get('scanner') == 'stdout-file':
        s += ' > ' + NAMES['scanner']
    elif cmd['outs'].get('scanner') == 'stdout':
        s += ' | reader'
    if fault:
        s = describe_fault(fault) + ' :: ' + s
    if envspec:
        s = 'env[%s] :: %s' % (envspec.get('name', '?'), s)
    return s


# ------------------------------------------------------------------ faults
# FAULT KINDS
#   fsize    RLIMIT_FSIZE = n for the whole process tree, SIGXFSZ ignored: the file
#            that grows past n gets a short write, then EFBIG ("disk full after n bytes")
#   devfull  the output path is a symlink to /dev/full (ENOSPC from byte 0); for the
#            scanner on stdout, stdout is /dev/full
#   nodir    the output path is a symlink into a directory that does not exist (ENOENT)
#   notdir   ... a path below a regular file (ENOTDIR)
#   isdir    the output path is a directory (EISDIR)
#   rodir    the output path is a symlink into a read-only directory; the flex tree
#            runs as an unprivileged user (EACCES)
#   reader   scanner on stdout, the reader closes the pipe after n bytes;
#            'sigpipe': 'default' | 'ignore'
#   m4       $M4 names a stub: 'mode': exit1 | signal | missing | ok, 'n' output bytes
#            before it fails, 'branch': c | header | both
PATH_FAULTS = ('devfull', 'nodir', 'notdir', 'isdir', 'rodir')


def describe_fault(f):
    if not f:
        return 'no fault'
    k = f['kind']
    if k == 'fsize':
        return 'RLIMIT_FSIZE=%d (SIGXFSZ ignored) striking the %s file' % (f['n'], f['file'])
    if k == 'reader':
        return 'reader of stdout closes after %d bytes (SIGPIPE %s)' % (f['n'], f.get('sigpipe', 'default'))
    if k == 'm4':
        return 'M4=stub mode=%s n=%d branch=%s' % (f['mode'], f.get('n', 0), f.get('branch', 'both'))
    return '%s file is %s' % (f['file'], {'devfull': 'a symlink to /dev/full', 'nodir': 'in a missing directory',
                                          'notdir': 'below a regular file', 'isdir': 'a directory',
                                          'rodir': 'in a read-only directory (run as uid 65534)'}[k])


def fault_key(f):
    if not f:
        return 'none'
    return ','.join('%s=%s' % (k, f[k]) for k in sorted(f))


# ------------------------------------------------------------------ env specs (C18)
def apply_envspec(env, spec, tools):
    """mutates env according to a perturbation spec, returns (argv_prefix, pre)
    where pre is a dict of things to do in the child before exec."""
    pre = {}
    prefix = []
    if not spec:
        return prefix, pre
    for k, v in spec.get('env', {}).items():
        env[k] = v
    if spec.get('mshim'):
        env['LD_PRELOAD'] = tools['mshim']
        env['WP_MSHIM_SEED'] = str(spec['mshim'].get('seed', 1))
        env['WP_MSHIM_MODE'] = str(spec['mshim'].get('mode', 15))
    if spec.get('envpad'):
        env['WP_PAD'] = 'x' * int(spec['envpad'])
    for k in ('affinity', 'nice', 'burn_pids', 'subdir', 'stack_kb', 'noaslr', 'close_stdin'):
        if spec.get(k) is not None:
            pre[k] = spec[k]
    return prefix, pre


# ------------------------------------------------------------------ the run
def base_env(rundir='<run directory>', san=False):
    """the complete environment of a flex run (before faults and perturbations add to it)"""
    env = {'PATH': '/usr/bin:/bin', 'LC_ALL': 'C', 'HOME': rundir, 'TMPDIR': rundir}
    if san:
        env['ASAN_OPTIONS'] = ASAN_OPTIONS
        env['UBSAN_OPTIONS'] = UBSAN_OPTIONS
    return env


def _prepare_dir(rundir, cmd, fault):
    if os.path.isdir(rundir):
        shutil.rmtree(rundir)
    os.makedirs(rundir)
    os.chmod(rundir, 0o777)
    with open(os.path.join(rundir, IN_NAME), 'wb') as f:
        f.write(cmd['input'])
    os.chmod(os.path.join(rundir, IN_NAME), 0o644)
    if fault and fault['kind'] in PATH_FAULTS:
        p = out_path(cmd, fault['file'])
        if p is None:
            return      # scanner on stdout: handled by the caller
        full = os.path.join(rundir, p)
        k = fault['kind']
        if k == 'devfull':
            os.symlink('/dev/full', full)
        elif k == 'nodir':
            os.symlink('no-such-dir/' + p, full)
        elif k == 'notdir':
            os.symlink(IN_NAME + '/' + p, full)
        elif k == 'isdir':
            os.mkdir(full)
        elif k == 'rodir':
            os.mkdir(os.path.join(rundir, 'ro'))
            os.chmod(os.path.join(rundir, 'ro'), 0o555)
            os.symlink('ro/' + p, full)


def _file_state(path):
    try:
        st = os.lstat(path)
    except OSError:
        return {'kind': 'missing'}
    import stat as S
    if S.S_ISLNK(st.st_mode):
        try:
            st2 = os.stat(path)
        except OSError:
            return {'kind': 'dangling-symlink'}
        if not S.S_ISREG(st2.st_mode):
            return {'kind': 'symlink-to-nonregular'}
        st = st2
    if S.S_ISDIR(st.st_mode):
        return {'kind': 'dir'}
    if not S.S_ISREG(st.st_mode):
        return {'kind': 'nonregular'}
    try:
        with open(path, 'rb') as f:
            b = f.read()
    except OSError:
        return {'kind': 'unreadable'}
    return {'kind': 'file', 'len': len(b), 'sha': sha(b), '_bytes': b}


_HEX = re.compile(r'0x[0-9a-fA-F]+')
_PID = re.compile(r'==\d+==')


def norm_stderr(s, rundir=None):
    s = _HEX.sub('0xX', s)
    s = _PID.sub('==PID==', s)
    s = re.sub(r'/dev/shm/[\w.-]+|/var/tmp/[\w.-]+', '<scratch>', s)
    s = re.sub(r'\(BuildId: \w+\)', '', s)
    return s


_MSG = re.compile(r'(?:flex: |' + re.escape(IN_NAME) + r':\d+: |scan\.l:\d+: )[^\n]*')


def flex_messages(err_text):
    """flex's own diagnostics, sorted.  Each is written with one write(2); what m4 prints comes in
    pieces and the two m4 processes of a --header-file run interleave them at random, so whole-stderr
    comparisons are meaningless."""
    return sorted(_MSG.findall(norm_stderr(err_text)))


def run_flex(flex, rundir, cmd, fault=None, envspec=None, tools=None, san=False, keep_bytes=False, timeout=None, as_limit_mb=None):
    """returns the outcome dict"""
    tools = tools or {}
    timeout = timeout or TIMEOUT
    _prepare_dir(rundir, cmd, fault)
    cwd = rundir
    argv = argv_of(cmd)
    env = base_env(rundir, san)
    prefix, pre = apply_envspec(env, envspec, tools)
    mark = None
    if fault and fault['kind'] == 'm4':
        if fault['mode'] == 'missing':
            env['M4'] = os.path.join(rundir, 'no-such-m4')
        else:
            mark = os.path.join(rundir, 'm4.mark')
            env['M4'] = tools['m4stub']
            env['WP_M4_REAL'] = REAL_M4
            env['WP_M4_MODE'] = fault['mode']
            env['WP_M4_N'] = str(fault.get('n', 0))
            env['WP_M4_BRANCH'] = fault.get('branch', 'both')
            env['WP_M4_MARK'] = mark
    shim_mark = None
    if envspec and envspec.get('mshim'):
        shim_mark = os.path.join(rundir, 'mshim.mark')
        env['WP_MSHIM_MARK'] = shim_mark
    if pre.get('subdir'):
        # same relative names, different absolute location and depth
        sub = os.path.join(rundir, pre['subdir'])
        os.makedirs(sub)
        for fn in os.listdir(rundir):
            if fn != pre['subdir'].split('/')[0]:
                os.rename(os.path.join(rundir, fn), os.path.join(sub, fn))
        cwd = sub
        env['HOME'] = sub

    fsize = fault['n'] if fault and fault['kind'] == 'fsize' else None
    sigpipe_ignore = bool(fault and fault['kind'] == 'reader' and fault.get('sigpipe') == 'ignore')
    drop_priv = bool(fault and fault['kind'] == 'rodir' and os.geteuid() == 0)
    read_limit = fault['n'] if fault and fault['kind'] == 'reader' else None

    def preexec():
        signal.signal(signal.SIGPIPE, signal.SIG_IGN if sigpipe_ignore else signal.SIG_DFL)
        signal.signal(signal.SIGXFSZ, signal.SIG_IGN if fsize is not None else signal.SIG_DFL)
        signal.signal(signal.SIGINT, signal.SIG_DFL)
        signal.signal(signal.SIGTERM, signal.SIG_DFL)
        if fsize is not None:
            resource.setrlimit(resource.RLIMIT_FSIZE, (fsize, fsize))
        resource.setrlimit(resource.RLIMIT_CORE, (0, 0))
        if as_limit_mb and not san:
            # flex's appetite is bounded by memory only once -Ca lifts the NFA limit: give it a finite machine
            resource.setrlimit(resource.RLIMIT_AS, (as_limit_mb << 20, as_limit_mb << 20))
        if pre.get('stack_kb'):
            resource.setrlimit(resource.RLIMIT_STACK, (pre['stack_kb'] * 1024, pre['stack_kb'] * 1024))
        if pre.get('noaslr') and _LIBC is not None:
            _LIBC.personality(ADDR_NO_RANDOMIZE)
        if pre.get('affinity'):
            os.sched_setaffinity(0, pre['affinity'])
        if pre.get('nice'):
            os.nice(pre['nice'])
        for _ in range(pre.get('burn_pids') or 0):
            p = os.fork()
            if p == 0:
                os._exit(0)
            os.waitpid(p, 0)
        if pre.get('close_stdin'):
            os.close(0)
        if drop_priv:
            os.setgroups([])
            os.setgid(NOBODY)
            os.setuid(NOBODY)

    scanner_mode = cmd['outs'].get('scanner', 'file')
    stdout_target = subprocess.PIPE
    so_file = None
    if scanner_mode == 'stdout-file':
        # what "flex -t > out.c" does; a devfull fault made out.c a symlink to /dev/full
        so_file = open(os.path.join(cwd, NAMES['scanner']), 'wb')
        stdout_target = so_file
    elif scanner_mode == 'stdout' and fault and fault['kind'] == 'devfull' and fault['file'] == 'scanner':
        so_file = open('/dev/full', 'wb')
        stdout_target = so_file

    t0 = time.time()
    own_r = None
    pipe_cap = None
    if read_limit is not None and stdout_target == subprocess.PIPE:
        # our own pipe, shrunk to one page *before* flex starts: the amount flex can
        # write after the reader is gone is then bounded by read_limit + pipe_cap
        own_r, own_w = os.pipe()
        try:
            pipe_cap = fcntl.fcntl(own_w, F_SETPIPE_SZ, 4096)
        except OSError:
            pipe_cap = 65536
        stdout_target = own_w
    try:
        proc = subprocess.Popen(argv, executable=flex, cwd=cwd, env=env,
                                stdin=subprocess.DEVNULL, stdout=stdout_target, stderr=subprocess.PIPE,
                                preexec_fn=preexec, restore_signals=False, start_new_session=True, close_fds=True)
    finally:
        if so_file is not None:
            so_file.close()
        if own_r is not None:
            os.close(own_w)
    out_chunks = []
    err_chunks = []
    nread = 0
    fds = {}
    out_file = proc.stdout if own_r is None else os.fdopen(own_r, 'rb', buffering=0)
    if out_file is not None:
        fds[out_file.fileno()] = 'out'
        if read_limit == 0:
            out_file.close()
            fds = {}
    fds[proc.stderr.fileno()] = 'err'
    poller = select.poll()
    for fd in fds:
        poller.register(fd, select.POLLIN | select.POLLHUP)
    timed_out = False
    deadline = t0 + timeout
    while fds:
        left = deadline - time.time()
        if left <= 0:
            timed_out = True
            break
        for fd, ev in poller.poll(min(left, 1.0) * 1000):
            which = fds.get(fd)
            if which is None:
                continue
            want = 65536
            if which == 'out' and read_limit is not None:
                want = min(want, read_limit - nread)
            try:
                b = os.read(fd, want) if want > 0 else b''
            except OSError:
                b = b''
            if which == 'out':
                out_chunks.append(b)
                nread += len(b)
                if not b or (read_limit is not None and nread >= read_limit):
                    poller.unregister(fd)
                    del fds[fd]
                    out_file.close()
            else:
                err_chunks.append(b)
                if not b:
                    poller.unregister(fd)
                    del fds[fd]
    status = None
    if not timed_out:
        try:
            status = proc.wait(timeout=max(0.1, deadline - time.time()))
        except subprocess.TimeoutExpired:
            timed_out = True
    if timed_out:
        try:
            os.killpg(proc.pid, signal.SIGKILL)
        except OSError:
            pass
        try:
            proc.wait(timeout=5)
        except Exception:
            pass
        status = None
    else:
        # stragglers of the tree (there should be none once stderr reached EOF)
        try:
            os.killpg(proc.pid, signal.SIGKILL)
        except OSError:
            pass
    for f in (out_file, proc.stderr):
        try:
            if f is not None and not f.closed:
                f.close()
        except OSError:
            pass
    wall = time.time() - t0
    stdout = b''.join(out_chunks)
    stderr = b''.join(err_chunks)
    err_text = stderr.decode('latin-1')
    o = {
        'status': status, 'timeout': timed_out, 'wall': round(wall, 3),
        'stdout_len': len(stdout), 'stdout_sha': sha(stdout),
        'stderr': err_text if len(err_text) <= 40000 else err_text[:20000] + '\n[...]\n' + err_text[-20000:], 'stderr_sha': sha('\n'.join(flex_messages(err_text)).encode('latin-1', 'replace')),
        'files': {}, 'san': bool(SAN_RE.search(RSS_NOTE_RE.sub('', err_text))) or status == 77,
        'argv': argv,
    }
    if pipe_cap is not None:
        o['pipe_cap'] = pipe_cap
    if keep_bytes:
        o['_stdout'] = stdout
    for w in ('scanner', 'header', 'tables', 'backup'):
        p = out_path(cmd, w)
        if p is None:
            continue
        st = _file_state(os.path.join(cwd, p))
        if not keep_bytes:
            st.pop('_bytes', None)
        o['files'][w] = st
    # files the input file asked for by itself (%option backup, outfile=..., tables-file=...)
    expected = {IN_NAME, 'm4.mark', 'mshim.mark'} | {out_path(cmd, w) for w in ('scanner', 'header', 'tables', 'backup')}
    extra = {}
    try:
        for fn in sorted(os.listdir(cwd)):
            if fn in expected:
                continue
            p_ = os.path.join(cwd, fn)
            if os.path.isfile(p_) and not os.path.islink(p_):
                extra[fn] = os.path.getsize(p_)
    except OSError:
        pass
    if cmd['outs'].get('scanner') == 'default' and o['files'].get('scanner', {}).get('kind') == 'missing':
        # lex.yy.c is only the nominal name: prefix=, c++ and emit= in the input change it
        cands = [fn for fn in extra if fn.startswith('lex.') and not fn.endswith(('.backup', '.tables'))]
        if len(cands) == 1:
            st = _file_state(os.path.join(cwd, cands[0]))
            if not keep_bytes:
                st.pop('_bytes', None)
            st['actual_name'] = cands[0]
            o['files']['scanner'] = st
            del extra[cands[0]]
    if extra:
        o['extra_files'] = extra
    if mark is not None:
        inv = []
        try:
            with open(mark) as f:
                for line in f:
                    t = line.split()
                    inv.append({'branch': t[0], 'forwarded': int(t[1]), 'available': int(t[2]), 'failed': int(t[3])})
        except OSError:
            pass
        inv.sort(key=lambda d: d['branch'])
        o['m4_invocations'] = inv
    if shim_mark is not None:
        tot = [0, 0, 0, 0]
        try:
            with open(shim_mark) as f:
                for line in f:
                    t = line.split()
                    if len(t) == 4:
                        tot[0] += 1
                        tot[1] += int(t[1])
                        tot[2] += int(t[2])
                        tot[3] += int(t[3])
        except OSError:
            pass
        o['mshim'] = {'processes': tot[0], 'mallocs': tot[1], 'reallocs': tot[2], 'junk_bytes': tot[3]}
    return o


def status_str(o):
    if o['timeout']:
        return 'timeout'
    s = o['status']
    if s is None:
        return 'unknown'
    if s < 0:
        try:
            return 'signal ' + signal.Signals(-s).name
        except ValueError:
            return 'signal %d' % -s
    return 'exit %d' % s


def fingerprint(o):
    """what the determinism gate compares"""
    files = ';'.join('%s=%s:%s' % (w, st.get('kind'), st.get('sha', '-')) for w, st in sorted(o['files'].items()))
    return '|'.join([status_str(o), o['stdout_sha'], o['stderr_sha'], files])


def crashed(o):
    s = o['status']
    return s is not None and s < 0 and -s in [int(x) for x in CRASH_SIGNALS]


# ------------------------------------------------------------------ tools
def noaslr_works():
    """can a child switch address space randomisation off for itself?"""
    if _LIBC is None:
        return False

    def pre():
        if _LIBC.personality(ADDR_NO_RANDOMIZE) == -1:
            os._exit(3)
    try:
        outs = set()
        for _ in range(2):
            p = subprocess.run(['/bin/sh', '-c', 'grep -m1 stack /proc/self/maps'], preexec_fn=pre,
                               stdout=subprocess.PIPE, stderr=subprocess.DEVNULL)
            if p.returncode != 0:
                return False
            outs.add(p.stdout)
        return len(outs) == 1
    except Exception:
        return False


def build_tools(workdir, log=None):
    """compile the m4 stub and the malloc shim into workdir; returns the tools dict"""
    here = os.path.dirname(os.path.abspath(__file__))
    tools = {}
    stub = os.path.join(workdir, 'm4stub')
    cenv = dict(os.environ, TMPDIR=workdir)      # compiler temporaries stay in the scratch directory
    p = subprocess.run(['gcc', '-O1', '-Wall', '-o', stub, os.path.join(here, 'm4stub.c')],
                       stdout=subprocess.PIPE, stderr=subprocess.STDOUT, text=True, env=cenv)
    if p.returncode != 0:
        raise RuntimeError('compiling m4stub.c failed:\n' + p.stdout)
    tools['m4stub'] = stub
    shim = os.path.join(workdir, 'mshim.so')
    p = subprocess.run(['gcc', '-O1', '-Wall', '-shared', '-fPIC', '-o', shim, os.path.join(here, 'mshim.c')],
                       stdout=subprocess.PIPE, stderr=subprocess.STDOUT, text=True, env=cenv)
    if p.returncode != 0:
        raise RuntimeError('compiling mshim.c failed:\n' + p.stdout)
    tools['mshim'] = shim
    tools['noaslr'] = noaslr_works()
    os.chmod(workdir, 0o755)
    return tools

#!/bin/bash
# usage: confirm_seeded.sh <worktree id under /tmp/mut> <seeded name> <check id>...
# confirms an agent's seeded change (suite passes with it, demo fails with it and passes without), stores it, runs the checks
W=/tmp/mut/$1; N=$2; shift; shift
mkdir -p /verif/seeded/$N && cp -r $W/_demo/* /verif/seeded/$N/
echo "=== $N"
/tmp/mut/tools/build_and_test.sh $W test 2>&1 | grep -E "PASS|FAIL" | tr '\n' ' '
(cd $W/_demo && sh ./demo.sh $W/src/flex >/dev/null 2>&1; echo "patched: exit $?"; sh ./demo.sh /dev/shm/w/keep/repo/src/flex >/dev/null 2>&1; echo "clean: exit $?")
cd /verif && tools/try_seeded.sh seeded/$N "$@" 2>&1 | tail -$#

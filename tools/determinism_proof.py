#!/usr/bin/env python3
"""Determinism proof: every simulated check is run twice per seed - with a different number of worker
processes and a different PYTHONHASHSEED, in fresh interpreters - and the digest of ALL event-log hashes
of the run (coverage.event_log_digest) plus evaluation counts must be identical.  One diverging log
anywhere in a run changes the digest.  usage: determinism_proof.py [seeds...] (default 1 2 3)"""
import json, os, subprocess, sys, tempfile, shutil
V = os.path.dirname(os.path.dirname(os.path.abspath(__file__)))
CHECKS = ['C03', 'C04', 'C05', 'C08', 'C09', 'C10', 'C11', 'C13', 'C14', 'C15']   # C12: digest is over interleaving strings; C16/C18 keep their own
seeds = [int(x) for x in sys.argv[1:]] or [1, 2, 3]
bad = 0
for c in CHECKS:
    for s in seeds:
        res = []
        for jobs, hs in ((16, '0'), (5, '12345')):
            d = tempfile.mkdtemp(prefix='detproof-', dir='/dev/shm')
            env = dict(os.environ, VERIF_SEED=str(s), VERIF_JOBS=str(jobs), PYTHONHASHSEED=hs, VERIF_EVIDENCE_DIR=d, VERIF_REPLAY_DIR=d)
            p = subprocess.run([sys.executable, os.path.join(V, 'sim', 'check.py'), c, '--tier', 'quick'], env=env, stdout=subprocess.PIPE, stderr=subprocess.PIPE, text=True)
            try:
                ev = json.load(open(os.path.join(d, c + '.json')))
                res.append((p.returncode, ev['coverage']['evaluations'], ev['coverage']['distinct_event_logs'], ev['coverage']['event_log_digest']))
            except Exception as e:
                res.append(('no evidence', str(e)))
            shutil.rmtree(d, ignore_errors=True)
        ok = res[0] == res[1]
        bad += 0 if ok else 1
        print('%s seed=%d %s %s' % (c, s, 'SAME' if ok else 'DIFFERENT', res if not ok else res[0]), flush=True)
print('determinism proof: %d divergence(s)' % bad)
sys.exit(1 if bad else 0)

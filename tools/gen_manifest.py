#!/usr/bin/env python3
"""writes /verif/MANIFEST.json from the table below (kept in one place so the
manifest never drifts from what the checks are)"""
import json, os
V = os.path.dirname(os.path.dirname(os.path.abspath(__file__)))
NA = {
 'C01': 'pure function of (rule set, input bytes): no schedule, fault, history or interleaving for a simulator to own',
 'C02': 'pure function of (options, rule set, input): configuration-differential, no simulator-owned dimension (configurations are still randomised inside every claimed check)',
 'C06': 'pure function of (rule set, input); the history-dependent part of BOL (per buffer, after restart / new source) is checked under C10/C11',
 'C07': 'the REJECT visiting order is a pure function of (rule set, input); REJECT scanners are part of the C03/C08/C09 workloads',
 'C17': 'pure function of the rule set (warnings versus reachability)',
 'C19': 'pure function of the option set',
 'C20': 'pure function of the input file text',
}
PENDING = 'check under construction in this session (DESIGN.md section 6); not yet claimed'
CHECKS = {
 'C03': ('exploration', 'seeded deterministic simulation: delivery-schedule search with differential oracle + over-read bound from a reference matcher',
         'sampled scenarios x inputs; per input the refill boundary is swept over every offset; a clean batch is evidence, not proof',
         'trusts: clang/ASan, glibc stdio for the stdio deliveries, the reference matcher (only for the over-read bound). Back ends: C non-reentrant, C reentrant, c99; deliveries: user routine, fread, getc, read(2) of %option read, yy_scan_*; the C++ lexer is not part of this check (no stdio or in-memory deliveries exist for it).', '6 C03'),
 'C04': ('exploration', 'seeded deterministic simulation: relabelling-twin differential (NUL or a high byte swapped with an ordinary byte) under identical plans, plus -7/-8 differential',
         'sampled scenario pairs x plans incl. the refill-boundary sweep over every offset; logs compared modulo the byte permutation',
         'trusts: that a byte permutation fixing newline preserves the meaning of a rule set (true for the generated pattern language); read-request counts are not compared (C03)', '6 C04'),
 'C05': ('exploration', 'seeded deterministic simulation: API-history search checked against an executable reference model (integer + list)',
         'sampled histories of begin/push/pop/top mixed with restart, buffer switches, yywrap and EOF, model compared after every event; plus, per sampled scenario and every one of its conditions, the flattening and the scope differential on sampled inputs and read schedules',
         'trusts: the harness op interpreter. Part A (histories, two thirds of the scenarios) uses the integer+list model; part B (rule activation, one third) is a differential against the scanner generated from only the rules the manual declares active in the condition, and against the same rules written in nested scopes. Back ends: C non-reentrant, C reentrant, c99 (part A), C++ lexer class; histories include yylex_destroy + reuse', '6 C05'),
 'C08': ('exploration', 'seeded deterministic simulation: in-action op histories x delivery schedules, checked event by event against a byte-stream reference model',
         'sampled scenarios x plans; conservation of the byte stream and the text seen by every action are checked on every run',
         'trusts: the reference matcher (disagreements that persist with no history are attributed to C01 and not reported); op scripts restricted to documented combinations (DESIGN 11.3). Back ends: C non-reentrant, C reentrant, c99, C++ lexer class', '6 C08'),
 'C09': ('exploration', 'seeded deterministic simulation: conservation invariant on yylineno over the recorded history (self-relative oracle)',
         'sampled scenarios x plans; invariant evaluated at every action entry, op and yylex return',
         'trusts: only the event log; no tokeniser model is involved', '6 C09'),
 'C11': ('exploration', 'seeded deterministic simulation: buffer-API histories (top level, actions, EOF actions, yywrap) checked against a per-buffer stream reference model',
         'sampled scenarios x histories over create/scan_*/switch/push/pop/flush/delete/yylex with 3-30 sources; per-buffer unread text, BOL and line number are tracked and compared at every event',
         'trusts: the reference matcher with triage; only histories the manual permits are generated', '6 C11'),
 'C12': ('exploration', 'seeded deterministic simulation: real pthreads under a baton scheduler (one seed = one interleaving), solo-versus-interleaved differential per instance; ThreadSanitizer free-running supplement',
         'sampled scenarios (several instances of one reentrant C / c99 / C++ scanner; 2-3 differently-prefixed scanners, non-reentrant ones included, linked together) x plans x hand-over schedules',
         'trusts: the baton hands over only at simulator callbacks (input, allocator - where the yyextra handed to the allocator is checked against the running instance -, yywrap, actions), so state shared between two callbacks is visible only to the supplementary free-running ThreadSanitizer mode (runtime monitoring, confirmed 3 of 6). Instances of reentrant C, c99 and C++ lexers; several non-reentrant scanners with different prefixes per program; at most one c99 scanner per program (known finding K-c99-link-clash)', '6 C12'),
 'C13': ('exploration', 'seeded deterministic simulation under ASan/UBSan with an allocation ledger, junk-fill differential and destroy/reuse differential',
         'sampled scenarios x plans from the union of the other workloads; every allocator call is ledgered; a third of the plans are re-run with another fill pattern and (non-reentrant) against a fresh process',
         'trusts: ASan/UBSan; uninitialised reads are visible only when they change behaviour under a different fill pattern (MSan unusable here)', '6 C13'),
 'C14': ('fault_enumeration', 'deterministic fault injection: every allocator call and every stdio read index of each sampled run is failed in turn',
         'per sampled (scenario, plan): exhaustive over the A allocator calls (k-th fails) and the R reads (EIO / EINTR at index j) of the fault-free run',
         'trusts: faults are injected at the yyalloc seam, at the fopencookie read callback and at the redefined read() of %option read scanners (not real signals); C++ operator new is not failed', '6 C14'),
 'C15': ('fault_enumeration', 'deterministic fault injection on a simulated tables FILE*: truncation at every byte offset, every magic-number bit flip, read errors, read chunking; serialized-versus-in-code differential; independent format parser',
         'per sampled scenario: exhaustive truncation offsets for files up to 4 KiB (stratified incl. all table boundaries beyond), all 32 magic bit flips, 40 read-error offsets; round trip on every plan; every concatenation order of 2-3 sets',
         'trusts: the format parser written from the manual; bit flips outside the magic number are injected only for the verify build (payload bytes)', '6 C15'),
 'C10': ('exploration', 'seeded deterministic simulation: EOF instants, source chains, yywrap policies and post-termination calls, checked against the stream reference model',
         'sampled scenarios x plans; the end-of-source instant is placed by the read schedule, premature end indications included',
         'trusts: the reference matcher with triage; a yymore() pending when yylex reaches the end of a source: %pointer drops the kept text, %array keeps it (what the implementation defines since fix 8b25f4d; the manual is silent)', '6 C10'),
 'C16': ('fault_enumeration', 'deterministic fault injection on the flex process tree: size limits at enumerated byte offsets per output file, /dev/full, unwritable paths, closing stdout reader, dying m4; seeded mutation of input files under a sanitizer build',
         'per (input, option set): write limits N in {0,1,4095,4096,4097,|F|-1,...} on each output file; corpus = the repo\'s .l files and 17 seeded mutators; outcome compared with the fault-free run of the same command',
         'trusts: RLIMIT_FSIZE / /dev/full as disk-full model (mid-file EIO on a regular file cannot be produced); ASan/UBSan build of flex; generated C is not compiled (C02)', '6 C16'),
 'C18': ('exploration', 'seeded perturbation of the flex process environment (LD_PRELOAD allocator shim with junk fill / moving realloc / padding, MALLOC_PERTURB_, ASLR, env size, cwd, pid, affinity, -o versus -t) with byte-identity oracle; bootstrap fix-point',
         'sampled (input, option set) x 25 perturbations + 2 output routings; scanner, header, tables, backup compared byte for byte; every perturbation is verified to have been applied',
         'trusts: the shim really changes allocation contents/layout (self-reported counters); time is not perturbed (flex imports no clock symbol)', '6 C18'),
}
m = {
 'version': 1,
 'setup_cmd': 'python3 -m compileall -q sim >/dev/null',
 'hooks': {
  'guard': 'WESTES_FLEX_VERIF',
  'enable': 'no hook in /repo is needed: every seam (YY_INPUT, noyyalloc/noyyrealloc/noyyfree, YY_FATAL_ERROR, yywrap, fopencookie FILE*) already exists; scratch builds still pass -DWESTES_FLEX_VERIF',
  'baseline_off_cmd': '/verif/tools/run_repo_tests.sh /repo',
  'source_commits': [],
  'add_only': True,
 },
 'engines': [
  {'name': 'flexsim', 'path': 'sim/', 'serves_properties': sorted(c for c in CHECKS if c not in ('C16', 'C18')),
   'kind_free_text': 'deterministic simulator for flex-generated scanners: plan interpreter in C (sources, allocator ledger, fatal hook, yywrap, baton scheduler) + Python scenario/plan generators, reference model, shrinker, replay'},
  {'name': 'worldp', 'path': 'sim/worldp/', 'serves_properties': ['C16', 'C18'],
   'kind_free_text': 'flex-process world: one flex process tree per case under a controlled kernel/libc environment (size limits, /dev/full, stub m4, closing reader, allocator shim, ASLR, affinity), outcome compared with the unperturbed run'},
 ],
 'checks': [],
 'not_applicable': [],
 'notes': 'Known findings: /verif/known_findings.json. Replays: /verif/replays/. See DESIGN.md.',
}
for pid in sorted(CHECKS):
    lvl, tech, text, note, ref = CHECKS[pid]
    m['checks'].append({
     'property_id': pid,
     'quick_cmd': 'python3 sim/check.py %s --tier quick' % pid,
     'thorough_cmd': 'python3 sim/check.py %s --tier thorough' % pid,
     'evidence_file': 'evidence/%s.json' % pid,
     'replay_cmd_template': 'python3 sim/check.py --replay {path}',
     'engine': 'worldp' if pid in ('C16', 'C18') else 'flexsim',
     'level_claimed': {'category': lvl, 'text': text, 'design_ref': 'DESIGN.md section ' + ref},
     'level_note': note,
     'technique': tech,
    })
for i in range(1, 21):
    pid = 'C%02d' % i
    if pid in CHECKS:
        continue
    m['not_applicable'].append({'property_id': pid, 'reason': NA.get(pid, PENDING)})
json.dump(m, open(os.path.join(V, 'MANIFEST.json'), 'w'), indent=1)

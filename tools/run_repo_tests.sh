#!/bin/bash
# Run westes/flex's own test suite on a scratch copy of /repo's working tree
# (all test scanners regenerated with the freshly built flex), print the
# summary, remove the copy.  Exit 0 iff 257 tests pass and none fails.
set -u
SRC=${1:-/repo}
D=$(mktemp -d /dev/shm/flex-suite-XXXXXX)
trap 'rm -rf "$D"' EXIT
rsync -a --exclude .git "$SRC"/ "$D"/
cd "$D" || exit 2
# the configured Makefiles carry abs_builddir=/repo/...: point them at the copy
ABS="abs_builddir=$D/src abs_srcdir=$D/src abs_top_builddir=$D abs_top_srcdir=$D"
# (the repo's own Makefile races under -j when 'all' recurses into stage2compare,
# so: parallel build of flex, then the serial remainder, then the tests in parallel)
make -C src -j16 flex $ABS > "$D/build.log" 2>&1 || { tail -30 "$D/build.log"; exit 1; }
make -C src $ABS >> "$D/build.log" 2>&1 || { tail -30 "$D/build.log"; exit 1; }
make -C tests clean >/dev/null 2>&1
make -C tests -j16 check abs_builddir=$D/tests abs_srcdir=$D/tests abs_top_builddir=$D abs_top_srcdir=$D > "$D/check.log" 2>&1
grep "^# " tests/test-suite.log
P=$(grep -c '^PASS' tests/test-suite.log 2>/dev/null)
T=$(sed -n 's/^# TOTAL: *//p' tests/test-suite.log)
PASS=$(sed -n 's/^# PASS: *//p' tests/test-suite.log)
FAIL=$(sed -n 's/^# FAIL: *//p' tests/test-suite.log)
ERR=$(sed -n 's/^# ERROR: *//p' tests/test-suite.log)
if [ "${T:-0}" = 257 ] && [ "${PASS:-0}" = 257 ] && [ "${FAIL:-1}" = 0 ] && [ "${ERR:-1}" = 0 ]; then exit 0; fi
grep -E '^(FAIL|ERROR)' tests/test-suite.log | head -20
tail -20 "$D/check.log"
exit 1

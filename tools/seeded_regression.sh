#!/bin/bash
# runs every seeded change against the quick tier of the check(s) that are meant to catch it and prints one line per pair
# usage: seeded_regression.sh [seeded names...]   (default: all)
cd /verif || exit 2
declare -A ALT=( [C08-c]="C10" )
names=("$@"); [ ${#names[@]} -eq 0 ] && names=($(ls seeded))
for n in "${names[@]}"; do
  id=${n%%-*}
  checks="${ALT[$n]:-$id}"
  for c in $checks; do
    echo "$n $(TRY_TIMEOUT=1500 tools/try_seeded.sh seeded/$n $c 2>&1 | tail -1 | cut -c1-150)"
  done
done

#!/usr/bin/env python3
"""Reach measurement: runs the quick tier of the scanner-world checks with the generated scanners built for
source-based coverage (clang -fprofile-instr-generate -fcoverage-mapping, no sanitizers) and reports, per
function of the generated code, in how many scanners it was entered and how many of its code regions ran.
Verdicts of these runs are ignored (evidence and replays go to a scratch directory).
usage: skeleton_coverage.py [check ids...]   -> writes /verif/reach/skeleton_coverage.json"""
import collections, glob, json, os, shutil, subprocess, sys, tempfile
V = os.path.dirname(os.path.dirname(os.path.abspath(__file__)))
checks = sys.argv[1:] or ['C03', 'C04', 'C05', 'C08', 'C09', 'C10', 'C11', 'C12', 'C13', 'C14', 'C15']
d = tempfile.mkdtemp(prefix='skelcov-', dir='/dev/shm')
per_check = {}
tot = collections.defaultdict(lambda: [0, 0, 0, 0])     # scanners having it, scanners entering it, regions, regions run
try:
    for c in checks:
        cd = os.path.join(d, c)
        os.makedirs(cd)
        env = dict(os.environ, VERIF_COV_DIR=cd, VERIF_EVIDENCE_DIR=os.path.join(d, 'ev'), VERIF_REPLAY_DIR=os.path.join(d, 'rp'))
        subprocess.run([sys.executable, os.path.join(V, 'sim', 'check.py'), c, '--tier', 'quick'], env=env, stdout=subprocess.DEVNULL, stderr=subprocess.DEVNULL)
        agg = collections.defaultdict(lambda: [0, 0, 0, 0])
        n = 0
        for f in glob.glob(os.path.join(cd, 'functions-*.jsonl')):
            for line in open(f):
                n += 1
                for name, (cnt, regs, run) in json.loads(line).items():
                    for a in (agg[name], tot[name]):
                        a[0] += 1
                        a[1] += 1 if cnt > 0 else 0
                        a[2] += regs
                        a[3] += run
        per_check[c] = {'scanners': n, 'functions': {k: v for k, v in sorted(agg.items())}}
        print('%s: %d scanners, %d functions seen, never entered: %s' % (c, n, len(agg), sorted(k for k, v in agg.items() if v[1] == 0)), flush=True)
finally:
    shutil.rmtree(d, ignore_errors=True)
rep = {'what': 'per function of the generated scanners: [scanners containing it, scanners in which it was entered, code regions (summed over scanners), code regions executed]',
       'checks': checks,
       'total': {k: v for k, v in sorted(tot.items())},
       'never_entered': sorted(k for k, v in tot.items() if v[1] == 0),
       'region_coverage_below_60_percent': sorted(k for k, v in tot.items() if v[2] and v[3] / v[2] < 0.6),
       'per_check': per_check}
json.dump(rep, open(os.path.join(V, 'reach', 'skeleton_coverage.json'), 'w'), indent=1)
print('never entered anywhere:', rep['never_entered'])
print('below 60% of regions:', [(k, '%d/%d' % (tot[k][3], tot[k][2])) for k in rep['region_coverage_below_60_percent']])

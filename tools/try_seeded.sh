#!/bin/bash
# usage: try_seeded.sh <seeded dir containing patch.diff> <check id>...
# applies the seeded change to /repo, runs the quick checks named, prints one line per check, restores /repo.
# Evidence and replay files of these experimental runs go to a scratch directory.
set -u
S=$(cd "$1" && pwd); shift
OUT=/dev/shm/w/seeded/$(basename "$S")
mkdir -p "$OUT"
cd /repo || exit 2
if [ -n "$(git status --porcelain --untracked-files=no)" ]; then echo "/repo has local modifications: refusing"; exit 2; fi
git apply "$S/patch.diff" || { echo "patch does not apply"; exit 2; }
trap 'git -C /repo checkout -- . ' EXIT
for c in "$@"; do
  t0=$(date +%s)
  VERIF_EVIDENCE_DIR=$OUT VERIF_REPLAY_DIR=$OUT timeout ${TRY_TIMEOUT:-900} python3 /verif/sim/check.py "$c" --tier quick > "$OUT/$c.log" 2>&1
  rc=$?
  echo "$c exit=$rc violations=$(grep -c '^VIOLATION' "$OUT/$c.log") known=$(grep -c '^KNOWN-FINDING' "$OUT/$c.log") $(( $(date +%s) - t0 ))s  $(grep -m1 '^  class=' "$OUT/$c.log" | cut -c1-160)"
done

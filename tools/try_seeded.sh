#!/bin/bash
# usage: try_seeded.sh <seeded dir containing patch.diff> <check id>...
# runs the quick checks named against a tree that carries the seeded change and prints one line per check.
# The change is applied to a scratch copy of /repo's working tree (VERIF_REPO points the checks at it), so that
# checks running elsewhere at the same time (background sweeps) never see it; with TRY_IN_PLACE=1 it is applied to
# /repo itself (git -C /repo apply ...; git -C /repo checkout -- . afterwards), which is equivalent.
# Evidence and replay files of these experimental runs go to a scratch directory.
set -u
S=$(cd "$1" && pwd); shift
OUT=/dev/shm/w/seeded/$(basename "$S")
mkdir -p "$OUT"
if [ -n "${TRY_IN_PLACE:-}" ]; then
  cd /repo || exit 2
  if [ -n "$(git status --porcelain --untracked-files=no)" ]; then echo "/repo has local modifications: refusing"; exit 2; fi
  git apply "$S/patch.diff" || { echo "patch does not apply"; exit 2; }
  trap 'git -C /repo checkout -- . ' EXIT
  export VERIF_REPO=/repo
else
  T=/dev/shm/w/seedrepo.$$
  mkdir -p "$T" && rsync -a --delete --exclude .git --include "/tests/*.l" --include "/tests/*.ll" --include "/tests/*.lll" --include "/tests/*.lex" --include "/tests/*.txt" --exclude "/tests/*" /repo/ "$T/" || exit 2
  trap 'rm -rf "$T"' EXIT
  (cd "$T" && patch -s -p1 < "$S/patch.diff") || { echo "patch does not apply"; exit 2; }
  export VERIF_REPO=$T
fi
for c in "$@"; do
  t0=$(date +%s)
  VERIF_EVIDENCE_DIR=$OUT VERIF_REPLAY_DIR=$OUT timeout ${TRY_TIMEOUT:-900} python3 /verif/sim/check.py "$c" --tier quick > "$OUT/$c.log" 2>&1
  rc=$?
  echo "$c exit=$rc violations=$(grep -c '^VIOLATION' "$OUT/$c.log") known=$(grep -c '^KNOWN-FINDING' "$OUT/$c.log") $(( $(date +%s) - t0 ))s  $(grep -m1 '^  class=' "$OUT/$c.log" | cut -c1-160)"
done
